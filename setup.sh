#!/bin/sh
# Build the simulator from files on disk only (offline).
set -e
cd "$(dirname "$0")/sim"
CARGO_NET_OFFLINE=true cargo build --release --offline 2>&1 | tail -3
