#!/bin/sh
# Build the simulator and prepare the Miri lane from files on disk only (offline).
set -e
ROOT="$(cd "$(dirname "$0")" && pwd)"
export CARGO_NET_OFFLINE=true
cd "$ROOT/sim"
cargo build --release --offline 2>&1 | tail -3
cargo build --profile relarith --offline 2>&1 | tail -1
# Lane M: build Miri's sysroot and the workload once so that checks do not pay for it.
# Failure here is not fatal: the checks report the Miri lane as unavailable in their evidence.
cd "$ROOT/miri"
(cargo +nightly miri setup --offline >/dev/null 2>&1 || cargo +nightly miri setup >/dev/null 2>&1) || echo "note: cargo +nightly miri setup failed; lane M will be reported as unavailable"
MIRIFLAGS="-Zmiri-disable-stacked-borrows -Zmiri-ignore-leaks" cargo +nightly miri run --offline --release --quiet -- c15 1 >/dev/null 2>&1 || echo "note: the Miri lane did not run during setup"
exit 0
