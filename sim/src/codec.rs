//! Independent RFC 1035 encoder (with seeded compression layouts) and decoder/recogniser.
//! Part of the trusted base; contains no dnssector code.

use crate::model::*;
use crate::prng::Rng;

// ---------------------------------------------------------------------------------------------
// Decoder / recogniser
// ---------------------------------------------------------------------------------------------

#[derive(Clone, Debug, PartialEq, Eq)]
pub enum Policy {
    NoQuestion,
    QueryWithAnswers,
    QueryWithAuthority,
}

#[derive(Clone, Debug, Default)]
pub struct Layout {
    /// start offset of each section (question, answer, nameservers, additional); None iff empty
    pub off: [Option<usize>; 4],
    /// offset of the first EDNS option (= end of the OPT fixed part), Some iff an OPT record exists
    pub off_edns: Option<usize>,
    pub edns_count: u16,
    pub ext_rcode: Option<u8>,
    pub edns_version: Option<u8>,
    pub ext_flags: Option<u16>,
    pub max_payload: usize,
    /// some name the library understands contains a compression pointer
    pub has_pointer: bool,
    /// longest pointer chain followed by any one name
    pub max_hops: u8,
    /// (start, end) of every record, per section
    pub recs: [Vec<(usize, usize)>; 4],
    /// (offset, code, len) of every EDNS option
    pub opts: Vec<(usize, u16, usize)>,
    pub counts: [u16; 4],
}

#[derive(Clone, Debug)]
pub struct Decoded {
    pub msg: Msg,
    pub layout: Layout,
    pub policy: Vec<Policy>,
}

#[derive(Clone, Debug, PartialEq, Eq)]
pub struct DecodeErr(pub String);

fn err<T>(s: impl Into<String>) -> Result<T, DecodeErr> {
    Err(DecodeErr(s.into()))
}

fn be16(p: &[u8], o: usize) -> Result<u16, DecodeErr> {
    if o + 2 > p.len() {
        return err("truncated (u16)");
    }
    Ok(((p[o] as u16) << 8) | p[o + 1] as u16)
}

fn be32(p: &[u8], o: usize) -> Result<u32, DecodeErr> {
    if o + 4 > p.len() {
        return err("truncated (u32)");
    }
    Ok(((p[o] as u32) << 24) | ((p[o + 1] as u32) << 16) | ((p[o + 2] as u32) << 8) | p[o + 3] as u32)
}

fn bad_label_char(c: u8) -> bool {
    c < 0x20 || c == 0x7f || c == b'.' || c == b'\\'
}

/// Decodes a possibly compressed name under the parser's policy: labels <= 63, total <= 255,
/// <= 16 strictly backward pointers, never to a root label, no control characters / dots /
/// backslashes. Returns (name, offset after the name in the record, used_pointer).
pub fn decode_name(p: &[u8], start: usize) -> Result<(Name, usize, u8), DecodeErr> {
    let len = p.len();
    if start >= len {
        return err("name starts outside the packet");
    }
    let mut labels = Vec::new();
    let mut total = 0usize;
    let mut off = start;
    let mut after: Option<usize> = None;
    let mut hops = 0;
    // Everything read after a jump must stay strictly below the place we jumped from
    // (`barrier`); each jump must land strictly below the lowest place visited so far.
    let mut barrier = len;
    let mut lowest = start;
    loop {
        if off >= barrier {
            return err(if off >= len {
                "truncated name"
            } else {
                "name walks back into itself"
            });
        }
        let b = p[off];
        if b & 0xc0 == 0xc0 {
            if hops >= 16 {
                return err("more than 16 pointers in a name");
            }
            hops += 1;
            if off + 2 > len {
                return err("truncated pointer");
            }
            let target = (((b & 0x3f) as usize) << 8) | p[off + 1] as usize;
            if target >= lowest {
                return err("pointer not strictly backward");
            }
            if p[target] == 0 {
                return err("pointer to a root label");
            }
            if after.is_none() {
                after = Some(off + 2);
            }
            barrier = lowest;
            lowest = target;
            off = target;
            continue;
        }
        if b > 63 {
            return err("label longer than 63");
        }
        let l = b as usize;
        if off + l >= len {
            return err("label runs past the packet");
        }
        total += l + 1;
        if total > 255 {
            return err("name longer than 255");
        }
        let lab = &p[off + 1..off + 1 + l];
        if lab.iter().any(|&c| bad_label_char(c)) {
            return err("forbidden character in label");
        }
        off += l + 1;
        if l == 0 {
            break;
        }
        labels.push(lab.to_vec());
    }
    Ok((Name(labels), after.unwrap_or(off), hops as u8))
}

/// Pointer-free name with arbitrary label bytes (DNAME target).
pub fn decode_plain_name(p: &[u8], start: usize) -> Result<(Name, usize), DecodeErr> {
    let len = p.len();
    if start >= len {
        return err("name starts outside the packet");
    }
    let mut labels = Vec::new();
    let mut total = 0usize;
    let mut off = start;
    loop {
        if off >= len {
            return err("truncated name");
        }
        let b = p[off];
        if b & 0xc0 == 0xc0 {
            return err("pointer in a pointer-free name");
        }
        if b > 63 {
            return err("label longer than 63");
        }
        let l = b as usize;
        if off + l >= len {
            return err("label runs past the packet");
        }
        total += l + 1;
        if total > 255 {
            return err("name longer than 255");
        }
        off += l + 1;
        if l == 0 {
            break;
        }
        labels.push(p[off - l..off].to_vec());
    }
    Ok((Name(labels), off))
}

/// Decodes one full (non-question) record at `start`. Returns the record, the end offset and
/// whether a pointer was used in a name the library understands.
pub fn decode_record(p: &[u8], start: usize) -> Result<(Rec, usize, u8), DecodeErr> {
    let (name, ne, mut ptr) = decode_name(p, start)?;
    if ne + 10 > p.len() {
        return err("truncated record header");
    }
    let rtype = be16(p, ne)?;
    let class = be16(p, ne + 2)?;
    let ttl = be32(p, ne + 4)?;
    let rdlen = be16(p, ne + 8)? as usize;
    let rd = ne + 10;
    let end = rd + rdlen;
    if end > p.len() {
        return err("rdata runs past the packet");
    }
    let rdata = match rtype {
        T_A => {
            if rdlen != 4 {
                return err("A rdata is not 4 bytes");
            }
            let mut a = [0u8; 4];
            a.copy_from_slice(&p[rd..end]);
            RData::A(a)
        }
        T_AAAA => {
            if rdlen != 16 {
                return err("AAAA rdata is not 16 bytes");
            }
            let mut a = [0u8; 16];
            a.copy_from_slice(&p[rd..end]);
            RData::AAAA(a)
        }
        T_NS | T_CNAME | T_PTR => {
            if rdlen == 0 {
                return err("empty name rdata");
            }
            let (n, e, pp) = decode_name(p, rd)?;
            ptr = ptr.max(pp);
            if e != end {
                return err("name does not fill rdata");
            }
            RData::Name(n)
        }
        T_MX => {
            if rdlen <= 2 {
                return err("MX rdata too short");
            }
            let pref = be16(p, rd)?;
            let (n, e, pp) = decode_name(p, rd + 2)?;
            ptr = ptr.max(pp);
            if e != end {
                return err("MX name does not fill rdata");
            }
            RData::MX(pref, n)
        }
        T_SOA => {
            if rdlen <= 21 {
                return err("SOA rdata too short");
            }
            let (n1, e1, p1) = decode_name(p, rd)?;
            let (n2, e2, p2) = decode_name(p, e1)?;
            ptr = ptr.max(p1).max(p2);
            if e2 + 20 != end {
                return err("SOA names do not fill rdata");
            }
            let mut m = [0u8; 20];
            m.copy_from_slice(&p[e2..end]);
            RData::SOA(n1, n2, m)
        }
        T_DNAME => {
            if rdlen == 0 {
                return err("empty DNAME rdata");
            }
            let (n, e) = decode_plain_name(p, rd)?;
            if e != end {
                return err("DNAME target does not fill rdata");
            }
            RData::DNAME(n)
        }
        _ => RData::Opaque(p[rd..end].to_vec()),
    };
    Ok((
        Rec {
            name,
            rtype,
            class,
            ttl,
            rdata,
        },
        end,
        ptr,
    ))
}

/// Full recogniser. Structural clauses produce `Err`; the two policy clauses the mutation API
/// cannot enforce (exactly one question; records only in responses) are reported separately.
pub fn decode(p: &[u8]) -> Result<Decoded, DecodeErr> {
    if p.len() < 12 {
        return err("shorter than a header");
    }
    let mut msg = Msg {
        id: be16(p, 0)?,
        flags: be16(p, 2)?,
        ..Default::default()
    };
    let counts = [be16(p, 4)?, be16(p, 6)?, be16(p, 8)?, be16(p, 10)?];
    let mut lay = Layout {
        counts,
        max_payload: 512,
        ..Default::default()
    };
    let mut policy = Vec::new();
    let mut off = 12usize;
    if counts[0] > 1 {
        return err("more than one question");
    }
    if counts[0] == 0 {
        policy.push(Policy::NoQuestion);
    } else {
        lay.off[0] = Some(off);
        let (name, ne, ptr) = decode_name(p, off)?;
        lay.has_pointer |= ptr > 0;
        lay.max_hops = lay.max_hops.max(ptr);
        // the parser needs at least one byte after the name before it even looks at the type
        if ne + 4 > p.len() {
            return err("truncated question");
        }
        let qtype = be16(p, ne)?;
        let qclass = be16(p, ne + 2)?;
        if qclass != 1 {
            return err("question class is not IN");
        }
        lay.recs[0].push((off, ne + 4));
        off = ne + 4;
        msg.q = Some(Question {
            name,
            qtype,
            qclass,
        });
    }
    let response = msg.flags & 0x8000 != 0;
    if !response && counts[1] > 0 {
        policy.push(Policy::QueryWithAnswers);
    }
    if !response && counts[2] > 0 {
        policy.push(Policy::QueryWithAuthority);
    }
    let mut seen_opt = false;
    for s in 1..4 {
        if counts[s] > 0 {
            lay.off[s] = Some(off);
        }
        for _ in 0..counts[s] {
            if off >= p.len() {
                return err("announced record missing");
            }
            let (rec, end, ptr) = decode_record(p, off)?;
            lay.has_pointer |= ptr > 0;
            lay.max_hops = lay.max_hops.max(ptr);
            if rec.rtype == T_OPT {
                if s != SEC_AR {
                    return err("OPT outside the additional section");
                }
                if !rec.name.0.is_empty() || p[off] != 0 {
                    return err("OPT owner is not the root");
                }
                if seen_opt {
                    return err("second OPT");
                }
                seen_opt = true;
                lay.max_payload = rec.class as usize;
                lay.ext_rcode = Some((rec.ttl >> 24) as u8);
                lay.edns_version = Some((rec.ttl >> 16) as u8);
                lay.ext_flags = Some(rec.ttl as u16);
                let rd = off + 1 + 10;
                lay.off_edns = Some(rd);
                let mut o = rd;
                while o < end {
                    if o + 4 > end {
                        return err("EDNS option header overruns OPT");
                    }
                    let code = be16(p, o)?;
                    let l = be16(p, o + 2)? as usize;
                    if o + 4 + l > end {
                        return err("EDNS option overruns OPT");
                    }
                    lay.opts.push((o, code, l));
                    lay.edns_count += 1;
                    o += 4 + l;
                }
            }
            lay.recs[s].push((off, end));
            off = end;
            msg.sec[s - 1].push(rec);
        }
    }
    if off != p.len() {
        return err("trailing bytes");
    }
    Ok(Decoded {
        msg,
        layout: lay,
        policy,
    })
}

// ---------------------------------------------------------------------------------------------
// Encoder
// ---------------------------------------------------------------------------------------------

#[derive(Clone, Debug)]
struct Site {
    offset: usize,
    suffix: Vec<Vec<u8>>,
    hops: u8,
}

pub struct Encoder {
    pub buf: Vec<u8>,
    sites: Vec<Site>,
    rng: Option<Rng>,
    /// probability (per thousand) of taking a pointer when one is available
    density: usize,
    pub pointers: usize,
    pub max_hops: u8,
}

impl Encoder {
    pub fn literal() -> Self {
        Encoder {
            buf: Vec::new(),
            sites: Vec::new(),
            rng: None,
            density: 0,
            pointers: 0,
            max_hops: 0,
        }
    }
    pub fn seeded(seed: u64, density_per_mille: usize) -> Self {
        Encoder {
            buf: Vec::new(),
            sites: Vec::new(),
            rng: Some(Rng::new(seed)),
            density: density_per_mille,
            pointers: 0,
            max_hops: 0,
        }
    }

    /// Registers an existing pointer target (used for names that live in the header bytes).
    pub fn add_site(&mut self, offset: usize, suffix: Vec<Vec<u8>>) {
        self.sites.push(Site {
            offset,
            suffix,
            hops: 0,
        });
    }

    fn u16(&mut self, v: u16) {
        self.buf.extend_from_slice(&v.to_be_bytes());
    }
    fn u32(&mut self, v: u32) {
        self.buf.extend_from_slice(&v.to_be_bytes());
    }

    /// Emits a name that later names may point into; may itself use pointers.
    pub fn put_name(&mut self, name: &Name) {
        let n = name.0.len();
        let mut new_sites: Vec<(usize, usize)> = Vec::new(); // (offset, label index)
        let mut tail_hops = 0u8;
        let mut i = 0;
        while i < n {
            let mut took = None;
            if let Some(rng) = self.rng.as_mut() {
                if self.density > 0 && rng.below(1000) < self.density {
                    let cands: Vec<usize> = self
                        .sites
                        .iter()
                        .enumerate()
                        .filter(|(_, s)| {
                            s.offset <= 0x3fff && s.hops < 16 && s.suffix[..] == name.0[i..]
                        })
                        .map(|(k, _)| k)
                        .collect();
                    if !cands.is_empty() {
                        took = Some(cands[rng.below(cands.len())]);
                    }
                }
            }
            if let Some(k) = took {
                let (t_off, t_hops) = (self.sites[k].offset, self.sites[k].hops);
                let here = self.buf.len();
                self.buf.push(0xc0 | (t_off >> 8) as u8);
                self.buf.push((t_off & 0xff) as u8);
                self.pointers += 1;
                tail_hops = t_hops + 1;
                // the pointer itself can be pointed at
                new_sites.push((here, i));
                break;
            }
            let here = self.buf.len();
            self.buf.push(name.0[i].len() as u8);
            self.buf.extend_from_slice(&name.0[i]);
            new_sites.push((here, i));
            i += 1;
        }
        if tail_hops == 0 {
            self.buf.push(0);
        }
        if tail_hops > self.max_hops {
            self.max_hops = tail_hops;
        }
        for (off, li) in new_sites {
            self.sites.push(Site {
                offset: off,
                suffix: name.0[li..].to_vec(),
                hops: tail_hops,
            });
        }
    }

    /// Emits a name literally and does not register it as a pointer target.
    pub fn put_plain_name(&mut self, name: &Name) {
        self.buf.extend_from_slice(&name.wire());
    }

    pub fn put_question(&mut self, q: &Question) {
        self.put_name(&q.name);
        self.u16(q.qtype);
        self.u16(q.qclass);
    }

    pub fn put_record(&mut self, r: &Rec) {
        if r.rtype == T_OPT {
            self.put_plain_name(&r.name);
        } else {
            self.put_name(&r.name);
        }
        self.u16(r.rtype);
        self.u16(r.class);
        self.u32(r.ttl);
        let lenpos = self.buf.len();
        self.u16(0);
        let start = self.buf.len();
        match &r.rdata {
            RData::A(a) => self.buf.extend_from_slice(a),
            RData::AAAA(a) => self.buf.extend_from_slice(a),
            RData::Name(n) => self.put_name(n),
            RData::MX(p, n) => {
                self.u16(*p);
                self.put_name(n)
            }
            RData::SOA(a, b, m) => {
                self.put_name(a);
                self.put_name(b);
                self.buf.extend_from_slice(m);
            }
            RData::DNAME(n) => self.put_plain_name(n),
            RData::Opaque(v) => self.buf.extend_from_slice(v),
        }
        let rdlen = self.buf.len() - start;
        self.buf[lenpos] = (rdlen >> 8) as u8;
        self.buf[lenpos + 1] = rdlen as u8;
    }

    pub fn put_msg(&mut self, m: &Msg) {
        self.u16(m.id);
        self.u16(m.flags);
        self.u16(m.q.is_some() as u16);
        self.u16(m.sec[0].len() as u16);
        self.u16(m.sec[1].len() as u16);
        self.u16(m.sec[2].len() as u16);
        if let Some(q) = &m.q {
            self.put_question(q);
        }
        for s in 0..3 {
            for r in &m.sec[s] {
                self.put_record(r);
            }
        }
    }
}

pub fn encode_literal(m: &Msg) -> Vec<u8> {
    let mut e = Encoder::literal();
    e.put_msg(m);
    e.buf
}

pub fn encode_seeded(m: &Msg, seed: u64, density_per_mille: usize) -> (Vec<u8>, usize, u8) {
    let mut e = Encoder::seeded(seed, density_per_mille);
    e.put_msg(m);
    (e.buf, e.pointers, e.max_hops)
}

/// Wire form of one stand-alone record (pointer-free).
pub fn encode_record(r: &Rec) -> Vec<u8> {
    let mut e = Encoder::literal();
    e.put_record(r);
    e.buf
}

pub fn hex(b: &[u8]) -> String {
    let mut s = String::with_capacity(b.len() * 2);
    for x in b {
        s.push_str(&format!("{:02x}", x));
    }
    s
}

pub fn unhex(s: &str) -> Option<Vec<u8>> {
    let s = s.as_bytes();
    if s.len() % 2 != 0 {
        return None;
    }
    let d = |c: u8| -> Option<u8> {
        match c {
            b'0'..=b'9' => Some(c - b'0'),
            b'a'..=b'f' => Some(c - b'a' + 10),
            b'A'..=b'F' => Some(c - b'A' + 10),
            _ => None,
        }
    };
    let mut v = Vec::with_capacity(s.len() / 2);
    for i in (0..s.len()).step_by(2) {
        v.push((d(s[i])? << 4) | d(s[i + 1])?);
    }
    Some(v)
}
