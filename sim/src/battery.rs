//! Fixed battery of observers over a ParsedPacket (C08 oracle): everything a user can see of the
//! object's own view of its bytes. Both sides of a comparison go through the same library
//! readers, so reader defects (C03, unclaimed) cancel out.

use crate::codec::Layout;
use crate::prng::fnv_bytes;
use dnssector::*;
use std::cell::RefCell;
use std::panic::{catch_unwind, AssertUnwindSafe};

thread_local! {
    static LAST_PANIC: RefCell<String> = RefCell::new(String::new());
}

/// Installs a silent panic hook that records the message (location stripped of line numbers is
/// not needed: the message itself is what is compared).
pub fn install_panic_hook() {
    std::panic::set_hook(Box::new(|info| {
        let msg = if let Some(s) = info.payload().downcast_ref::<&str>() {
            s.to_string()
        } else if let Some(s) = info.payload().downcast_ref::<String>() {
            s.clone()
        } else {
            "<non-string panic>".to_string()
        };
        let loc = info
            .location()
            .map(|l| {
                let f = l.file();
                let f = f.rsplit('/').next().unwrap_or(f);
                format!("{}:{}", f, l.line())
            })
            .unwrap_or_default();
        LAST_PANIC.with(|p| *p.borrow_mut() = format!("{} @{}", msg, loc));
    }));
}

pub fn take_panic() -> String {
    LAST_PANIC.with(|p| std::mem::take(&mut *p.borrow_mut()))
}

/// Runs `f`, converting a panic into its message.
pub fn guarded<T>(f: impl FnOnce() -> T) -> Result<T, String> {
    match catch_unwind(AssertUnwindSafe(f)) {
        Ok(v) => Ok(v),
        Err(_) => Err(take_panic()),
    }
}

#[derive(Clone, Debug, PartialEq, Eq)]
pub enum Val {
    None,
    U(u64),
    /// (hash, len) of a byte string
    B(u64, usize),
    S(String),
    Panic(String),
}

impl Val {
    fn bytes(b: &[u8]) -> Val {
        if b.len() <= 24 {
            Val::S(crate::codec::hex(b))
        } else {
            Val::B(fnv_bytes(b), b.len())
        }
    }
    fn opt_u<T: Into<u64>>(o: Option<T>) -> Val {
        match o {
            None => Val::None,
            Some(v) => Val::U(v.into()),
        }
    }
    pub fn show(&self) -> String {
        match self {
            Val::None => "None".into(),
            Val::U(u) => format!("{}", u),
            Val::B(h, l) => format!("bytes[len={} fnv={:016x}]", l, h),
            Val::S(s) => s.clone(),
            Val::Panic(m) => format!("PANIC({})", m),
        }
    }
}

pub type Obs = Vec<(String, Val)>;

/// Field-by-field copy (ParsedPacket does not implement Clone; all fields are public). Built by
/// assignment onto a blank object rather than with a struct literal, so that a library revision
/// that adds a field to ParsedPacket does not stop the harness from compiling.
pub fn clone_pp(pp: &ParsedPacket) -> ParsedPacket {
    let mut c = ParsedPacket::empty();
    c.packet = pp.packet.clone();
    c.offset_question = pp.offset_question;
    c.offset_answers = pp.offset_answers;
    c.offset_nameservers = pp.offset_nameservers;
    c.offset_additional = pp.offset_additional;
    c.offset_edns = pp.offset_edns;
    c.edns_count = pp.edns_count;
    c.ext_rcode = pp.ext_rcode;
    c.edns_version = pp.edns_version;
    c.ext_flags = pp.ext_flags;
    c.maybe_compressed = pp.maybe_compressed;
    c.max_payload = pp.max_payload;
    c.cached = pp.cached.clone();
    c
}

/// The object a fresh parse would give for bytes that the parser turns away for *policy-only*
/// reasons (no question / records in a query): built from the independent recogniser's layout.
pub fn pp_from_layout(bytes: Vec<u8>, lay: &Layout) -> ParsedPacket {
    let mut c = ParsedPacket::empty();
    c.packet = Some(bytes);
    c.offset_question = lay.off[0];
    c.offset_answers = lay.off[1];
    c.offset_nameservers = lay.off[2];
    c.offset_additional = lay.off[3];
    c.offset_edns = lay.off_edns;
    c.edns_count = lay.edns_count;
    c.ext_rcode = lay.ext_rcode;
    c.edns_version = lay.edns_version;
    c.ext_flags = lay.ext_flags;
    c.maybe_compressed = true;
    c.max_payload = lay.max_payload;
    c.cached = None;
    c
}

const WALK_CAP: usize = 70_000;

fn obs_response<'a>(
    out: &mut Obs,
    tag: &str,
    first: Option<ResponseIterator<'a>>,
    including_opt: bool,
) {
    let mut it = first;
    let mut i = 0usize;
    while let Some(item) = it {
        let p = format!("{}[{}].", tag, i);
        out.push((format!("{}offset", p), Val::opt_u(item.offset().map(|x| x as u64))));
        out.push((format!("{}offset_next", p), Val::U(item.offset_next() as u64)));
        out.push((format!("{}name", p), Val::bytes(&item.name())));
        let mut raw = Vec::new();
        item.copy_raw_name(&mut raw);
        out.push((format!("{}raw_name", p), Val::bytes(&raw)));
        out.push((format!("{}type", p), Val::U(item.rr_type() as u64)));
        out.push((format!("{}class", p), Val::U(item.rr_class() as u64)));
        out.push((format!("{}ttl", p), Val::U(item.rr_ttl() as u64)));
        out.push((format!("{}rdlen", p), Val::U(item.rr_rdlen() as u64)));
        match item.rr_rd() {
            Ok(RawRRData::IpAddr(ip)) => out.push((format!("{}rd", p), Val::S(format!("{}", ip)))),
            Ok(RawRRData::Data(d)) => out.push((format!("{}rd", p), Val::bytes(d))),
            Err(e) => out.push((format!("{}rd", p), Val::S(format!("Err({})", e)))),
        }
        out.push((
            format!("{}section", p),
            Val::S(format!("{:?}", item.current_section().map_err(|e| e.to_string()))),
        ));
        i += 1;
        if i > WALK_CAP {
            out.push((format!("{}.cap", tag), Val::S("walk cap exceeded".into())));
            break;
        }
        it = if including_opt {
            item.next_including_opt()
        } else {
            item.next()
        };
    }
    out.push((format!("{}.len", tag), Val::U(i as u64)));
}

/// Observes everything; consumes a private copy so that the observed object's cache is not poked.
pub fn observe(pp: &ParsedPacket) -> Obs {
    let mut out: Obs = Vec::new();
    let mut c = clone_pp(pp);
    out.push(("has_bytes".into(), Val::U(c.packet.is_some() as u64)));
    if c.packet.is_none() {
        return out;
    }
    out.push(("offset_question".into(), Val::opt_u(c.offset_question.map(|x| x as u64))));
    out.push(("offset_answers".into(), Val::opt_u(c.offset_answers.map(|x| x as u64))));
    out.push((
        "offset_nameservers".into(),
        Val::opt_u(c.offset_nameservers.map(|x| x as u64)),
    ));
    out.push((
        "offset_additional".into(),
        Val::opt_u(c.offset_additional.map(|x| x as u64)),
    ));
    out.push(("offset_edns".into(), Val::opt_u(c.offset_edns.map(|x| x as u64))));
    out.push(("edns_count".into(), Val::U(c.edns_count as u64)));
    out.push(("ext_rcode".into(), Val::opt_u(c.ext_rcode)));
    out.push(("edns_version".into(), Val::opt_u(c.edns_version)));
    out.push(("ext_flags".into(), Val::opt_u(c.ext_flags)));
    {
        let p = c.packet();
        if p.len() < 12 {
            out.push(("short".into(), Val::U(p.len() as u64)));
            return out;
        }
        out.push(("qdcount".into(), Val::U(DNSSector::qdcount(p) as u64)));
        out.push(("ancount".into(), Val::U(DNSSector::ancount(p) as u64)));
        out.push(("nscount".into(), Val::U(DNSSector::nscount(p) as u64)));
        out.push(("arcount".into(), Val::U(DNSSector::arcount(p) as u64)));
    }
    out.push(("tid".into(), Val::U(c.tid() as u64)));
    out.push(("flags".into(), Val::U(c.flags() as u64)));
    out.push(("rcode".into(), Val::U(c.rcode() as u64)));
    out.push(("opcode".into(), Val::U(c.opcode() as u64)));

    let show_q = |q: Option<(Vec<u8>, u16, u16)>| -> Val {
        match q {
            None => Val::None,
            Some((n, t, cl)) => Val::S(format!("{}/{}/{}", crate::codec::hex(&n), t, cl)),
        }
    };
    match guarded(|| c.qtype_qclass()) {
        Ok(v) => out.push((
            "qtype_qclass".into(),
            match v {
                None => Val::None,
                Some((t, cl)) => Val::S(format!("{}/{}", t, cl)),
            },
        )),
        Err(m) => out.push(("qtype_qclass".into(), Val::Panic(m))),
    }
    match guarded(|| c.question()) {
        Ok(v) => out.push(("question".into(), show_q(v))),
        Err(m) => out.push(("question".into(), Val::Panic(m))),
    }
    match guarded(|| c.question_raw0().map(|(n, t, cl)| (n.to_vec(), t, cl))) {
        Ok(v) => out.push(("question_raw0".into(), show_q(v))),
        Err(m) => out.push(("question_raw0".into(), Val::Panic(m))),
    }

    // walks
    {
        let mut part: Obs = Vec::new();
        let r = guarded(|| {
            let mut it = c.into_iter_question();
            let mut i = 0usize;
            while let Some(item) = it {
                let p = format!("q[{}].", i);
                part.push((format!("{}offset", p), Val::opt_u(item.offset().map(|x| x as u64))));
                part.push((format!("{}offset_next", p), Val::U(item.offset_next() as u64)));
                part.push((format!("{}name", p), Val::bytes(&item.name())));
                let mut raw = Vec::new();
                item.copy_raw_name(&mut raw);
                part.push((format!("{}raw_name", p), Val::bytes(&raw)));
                part.push((format!("{}type", p), Val::U(item.rr_type() as u64)));
                part.push((format!("{}class", p), Val::U(item.rr_class() as u64)));
                i += 1;
                if i > 4 {
                    break;
                }
                it = item.next();
            }
            part.push(("q.len".into(), Val::U(i as u64)));
        });
        out.append(&mut part);
        if let Err(m) = r {
            out.push(("q.walk".into(), Val::Panic(m)));
        }
    }
    for (tag, which) in [("an", 1u8), ("ns", 2), ("ar", 3), ("ar+opt", 4)] {
        let mut part: Obs = Vec::new();
        let r = guarded(|| match which {
            1 => obs_response(&mut part, tag, c.into_iter_answer(), false),
            2 => obs_response(&mut part, tag, c.into_iter_nameservers(), false),
            3 => obs_response(&mut part, tag, c.into_iter_additional(), false),
            _ => obs_response(&mut part, tag, c.into_iter_additional_including_opt(), true),
        });
        out.append(&mut part);
        if let Err(m) = r {
            out.push((format!("{}.walk", tag), Val::Panic(m)));
        }
    }
    {
        let mut part: Obs = Vec::new();
        let r = guarded(|| {
            let mut it = c.into_iter_edns();
            let mut i = 0usize;
            while let Some(item) = it {
                let p = format!("edns[{}].", i);
                part.push((format!("{}offset", p), Val::opt_u(item.offset().map(|x| x as u64))));
                part.push((format!("{}offset_next", p), Val::U(item.offset_next() as u64)));
                let raw = item.raw();
                let code = ((raw.packet[raw.offset] as u64) << 8) | raw.packet[raw.offset + 1] as u64;
                part.push((format!("{}code", p), Val::U(code)));
                i += 1;
                if i > WALK_CAP {
                    break;
                }
                it = item.next();
            }
            part.push(("edns.len".into(), Val::U(i as u64)));
        });
        out.append(&mut part);
        if let Err(m) = r {
            out.push(("edns.walk".into(), Val::Panic(m)));
        }
    }
    out
}

/// First difference between two observation lists.
pub fn first_diff(a: &Obs, b: &Obs) -> Option<String> {
    let n = a.len().min(b.len());
    for i in 0..n {
        if a[i] != b[i] {
            if a[i].0 == b[i].0 {
                return Some(format!(
                    "{}: object says {} but a fresh parse says {}",
                    a[i].0,
                    a[i].1.show(),
                    b[i].1.show()
                ));
            }
            return Some(format!(
                "object observes {}={} where a fresh parse observes {}={}",
                a[i].0,
                a[i].1.show(),
                b[i].0,
                b[i].1.show()
            ));
        }
    }
    if a.len() != b.len() {
        let (l, who) = if a.len() > b.len() {
            (&a[n], "object")
        } else {
            (&b[n], "fresh parse")
        };
        return Some(format!("only the {} observes {}={}", who, l.0, l.1.show()));
    }
    None
}

/// The key of the first difference (used in violation signatures).
pub fn first_diff_key(a: &Obs, b: &Obs) -> String {
    let n = a.len().min(b.len());
    for i in 0..n {
        if a[i] != b[i] {
            let k = &a[i].0;
            // strip indices so that signatures are stable: "an[3].ttl" -> "an[].ttl"
            let mut s = String::new();
            let mut skip = false;
            for ch in k.chars() {
                if ch == '[' {
                    skip = true;
                    s.push('[');
                } else if ch == ']' {
                    skip = false;
                    s.push(']');
                } else if !skip {
                    s.push(ch);
                }
            }
            return s;
        }
    }
    "length".into()
}

/// True when the two observation lists differ in something other than raw offsets: record
/// contents, counts, EDNS options or summary, header fields, question.
pub fn content_differs(a: &Obs, b: &Obs) -> bool {
    use std::collections::BTreeMap;
    let is_content = |k: &str| -> bool {
        !(k.starts_with("offset_") || k.ends_with(".offset") || k.ends_with(".offset_next") || k == "has_bytes")
    };
    let ma: BTreeMap<&str, &Val> = a.iter().map(|(k, v)| (k.as_str(), v)).collect();
    let mb: BTreeMap<&str, &Val> = b.iter().map(|(k, v)| (k.as_str(), v)).collect();
    for (k, v) in &ma {
        if is_content(k) && mb.get(k) != Some(v) {
            return true;
        }
    }
    for (k, v) in &mb {
        if is_content(k) && ma.get(k) != Some(v) {
            return true;
        }
    }
    false
}
