//! Lane C: the exported C function table driven by a real C translation unit compiled against
//! the shipped header, compared step by step with the native API on a twin packet.

use crate::battery::{first_diff, guarded, observe};
use crate::codec;
use crate::exec::{bump, first_words, Stats, Violation};
use crate::gen;
use crate::lanes::RunReport;
use crate::model::*;
use crate::prng::{self, Fnv, Rng};
use dnssector::c_abi::FnTable;
use dnssector::synth::r#gen as dgen;
use dnssector::*;
use serde::{Deserialize, Serialize};
use serde_json::{json, Value};
use std::net::IpAddr;

include!(concat!(env!("OUT_DIR"), "/cprobe.rs"));

extern "C" {
    fn dnssim_driver_ok() -> i32;
    fn dnssim_run_op(
        t: *const FnTable,
        pp: *mut ParsedPacket,
        script: *const u8,
        script_len: usize,
        logbuf: *mut u8,
        log_cap: usize,
        log_len: *mut usize,
    ) -> i32;
}

const MAX_VISITS: u32 = 300;

#[derive(Clone, Debug, Serialize, Deserialize, PartialEq, Eq)]
pub enum CbOp {
    Name,
    Type,
    Class,
    Ttl,
    SetTtl(u32),
    Ip,
    /// rr_ip with a caller buffer `extra` bytes larger than the address
    IpRoomy(u8),
    /// set_raw_name with the record's current owner name, letter case flipped
    SetRawNameCaseFlip,
    SetIp(#[serde(with = "crate::ops::hexbytes")] Vec<u8>),
    SetRawName(#[serde(with = "crate::ops::hexbytes")] Vec<u8>),
    SetName {
        #[serde(with = "crate::ops::hexbytes")]
        text: Vec<u8>,
        #[serde(with = "crate::ops::hexbytes")]
        zone: Vec<u8>,
        /// when the zone is empty: pass a non-NULL pointer with length 0 instead of NULL
        #[serde(default)]
        empty_zone_nonnull: bool,
    },
    Delete,
    Stop,
}

#[derive(Clone, Debug, Serialize, Deserialize, PartialEq, Eq)]
pub enum TopOp {
    Flags,
    SetFlags(u32),
    Rcode,
    SetRcode(u8),
    Opcode,
    SetOpcode(u8),
    Add {
        section: u8,
        #[serde(with = "crate::ops::hexbytes")]
        text: Vec<u8>,
    },
    RawPacket {
        cap: u16,
    },
    Question,
    Rename {
        #[serde(with = "crate::ops::hexbytes")]
        target: Vec<u8>,
        #[serde(with = "crate::ops::hexbytes")]
        source: Vec<u8>,
        suffix: bool,
    },
    RawNameFromStr(#[serde(with = "crate::ops::hexbytes")] Vec<u8>),
    Iter {
        section: u8,
        progs: Vec<Vec<CbOp>>,
    },
    AbiVersion,
}

impl TopOp {
    pub fn kind(&self) -> String {
        match self {
            TopOp::Flags => "flags".into(),
            TopOp::SetFlags(_) => "set_flags".into(),
            TopOp::Rcode => "rcode".into(),
            TopOp::SetRcode(_) => "set_rcode".into(),
            TopOp::Opcode => "opcode".into(),
            TopOp::SetOpcode(_) => "set_opcode".into(),
            TopOp::Add { section, .. } => {
                format!("add_to_{}", ["question", "answer", "nameservers", "additional"][*section as usize & 3])
            }
            TopOp::RawPacket { .. } => "raw_packet".into(),
            TopOp::Question => "question".into(),
            TopOp::Rename { .. } => "rename_with_raw_names".into(),
            TopOp::RawNameFromStr(_) => "raw_name_from_str".into(),
            TopOp::Iter { section, .. } => {
                format!("iter_{}", ["answer", "nameservers", "additional", "edns"][*section as usize & 3])
            }
            TopOp::AbiVersion => "abi_version".into(),
        }
    }
}

#[derive(Clone, Debug, Serialize, Deserialize, PartialEq, Eq)]
pub struct ScenC {
    #[serde(with = "crate::ops::hexbytes")]
    pub packet: Vec<u8>,
    pub ops: Vec<TopOp>,
}

// ---------------------------------------------------------------------------------------------
// encoding for the C interpreter
// ---------------------------------------------------------------------------------------------

fn put_blob(v: &mut Vec<u8>, b: &[u8]) {
    v.extend_from_slice(&(b.len() as u16).to_be_bytes());
    v.extend_from_slice(b);
}

fn encode_cb(p: &[CbOp]) -> Vec<u8> {
    let mut v = Vec::new();
    for op in p {
        match op {
            CbOp::Name => v.push(0x50),
            CbOp::Type => v.push(0x51),
            CbOp::Class => v.push(0x52),
            CbOp::Ttl => v.push(0x53),
            CbOp::SetTtl(t) => {
                v.push(0x54);
                v.extend_from_slice(&t.to_be_bytes());
            }
            CbOp::Ip => v.push(0x55),
            CbOp::IpRoomy(x) => {
                v.push(0x5B);
                v.push(*x);
            }
            CbOp::SetRawNameCaseFlip => v.push(0x5C),
            CbOp::SetIp(a) => {
                v.push(0x56);
                put_blob(&mut v, a);
            }
            CbOp::SetRawName(n) => {
                v.push(0x57);
                put_blob(&mut v, n);
            }
            CbOp::SetName {
                text,
                zone,
                empty_zone_nonnull,
            } => {
                v.push(0x58);
                put_blob(&mut v, text);
                put_blob(&mut v, zone);
                v.push(*empty_zone_nonnull as u8);
            }
            CbOp::Delete => v.push(0x59),
            CbOp::Stop => v.push(0x5A),
        }
    }
    v
}

fn encode_top(op: &TopOp) -> Vec<u8> {
    let mut v = Vec::new();
    match op {
        TopOp::Flags => v.push(0x01),
        TopOp::SetFlags(f) => {
            v.push(0x02);
            v.extend_from_slice(&f.to_be_bytes());
        }
        TopOp::Rcode => v.push(0x03),
        TopOp::SetRcode(r) => {
            v.push(0x04);
            v.push(*r);
        }
        TopOp::Opcode => v.push(0x05),
        TopOp::SetOpcode(r) => {
            v.push(0x06);
            v.push(*r);
        }
        TopOp::Add { section, text } => {
            v.push(0x10 + (*section & 3));
            put_blob(&mut v, text);
        }
        TopOp::RawPacket { cap } => {
            v.push(0x20);
            v.extend_from_slice(&cap.to_be_bytes());
        }
        TopOp::Question => v.push(0x21),
        TopOp::Rename {
            target,
            source,
            suffix,
        } => {
            v.push(0x22);
            put_blob(&mut v, target);
            put_blob(&mut v, source);
            v.push(*suffix as u8);
        }
        TopOp::RawNameFromStr(n) => {
            v.push(0x23);
            put_blob(&mut v, n);
        }
        TopOp::Iter { section, progs } => {
            v.push(0x30 + (*section & 3));
            v.push(progs.len() as u8);
            for p in progs {
                put_blob(&mut v, &encode_cb(p));
            }
        }
        TopOp::AbiVersion => v.push(0x40),
    }
    v
}

// ---------------------------------------------------------------------------------------------
// native twin: the same operation through the Rust API, writing the same log
// ---------------------------------------------------------------------------------------------

struct L(Vec<u8>);
impl L {
    fn u8(&mut self, v: u8) {
        self.0.push(v)
    }
    fn u16(&mut self, v: u16) {
        self.0.extend_from_slice(&v.to_be_bytes())
    }
    fn u32(&mut self, v: u32) {
        self.0.extend_from_slice(&v.to_be_bytes())
    }
    fn u64(&mut self, v: u64) {
        self.0.extend_from_slice(&v.to_be_bytes())
    }
    fn str(&mut self, b: &[u8]) {
        self.u16(b.len() as u16);
        self.0.extend_from_slice(b);
    }
    /// what the C side sees of a NUL-terminated string written into a 256-byte buffer
    fn cstr(&mut self, b: &[u8]) {
        let n = b.iter().position(|&c| c == 0).unwrap_or(b.len());
        self.str(&b[..n]);
    }
    fn rc(&mut self, r: &Result<(), Error>) {
        match r {
            Ok(()) => self.u8(0),
            Err(e) => {
                self.u8(0xff);
                let s = e.to_string();
                let b = s.as_bytes();
                self.str(&b[..b.len().min(2000)]);
            }
        }
    }
}

fn native_cb(item: &mut ResponseIterator, prog: &[CbOp], l: &mut L) -> bool {
    let mut deleted = false;
    for op in prog {
        match op {
            CbOp::Name => {
                if !deleted {
                    l.cstr(&item.name());
                }
            }
            CbOp::Type => {
                if !deleted {
                    l.u16(item.rr_type())
                }
            }
            CbOp::Class => {
                if !deleted {
                    l.u16(item.rr_class())
                }
            }
            CbOp::Ttl => {
                if !deleted {
                    l.u32(item.rr_ttl())
                }
            }
            CbOp::SetTtl(t) => {
                if !deleted {
                    item.set_rr_ttl(*t)
                }
            }
            CbOp::Ip => {
                if deleted {
                    continue;
                }
                let ty = item.rr_type();
                if ty != 1 && ty != 28 {
                    continue;
                }
                match item.rr_ip() {
                    Ok(IpAddr::V4(ip)) => {
                        l.u8(4);
                        l.0.extend_from_slice(&ip.octets());
                    }
                    Ok(IpAddr::V6(ip)) => {
                        l.u8(16);
                        l.0.extend_from_slice(&ip.octets());
                    }
                    Err(_) => l.u8(0xfd),
                }
            }
            CbOp::IpRoomy(_) => {
                if deleted {
                    continue;
                }
                let ty = item.rr_type();
                if ty != 1 && ty != 28 {
                    continue;
                }
                match item.rr_ip() {
                    Ok(IpAddr::V4(ip)) => {
                        l.u8(4);
                        l.0.extend_from_slice(&ip.octets());
                    }
                    Ok(IpAddr::V6(ip)) => {
                        l.u8(16);
                        l.0.extend_from_slice(&ip.octets());
                    }
                    Err(_) => l.u8(0xfd),
                }
                l.u8(0); // nothing beyond the address touched
            }
            CbOp::SetRawNameCaseFlip => {
                if deleted {
                    continue;
                }
                // exactly what the C side can do: name() (lower-cased text) -> raw name ->
                // upper-case the letters -> set_raw_name
                let text = item.name();
                let n = text.iter().position(|&c| c == 0).unwrap_or(text.len());
                match dgen::raw_name_from_str(&text[..n], None) {
                    Err(_) => l.u8(0xfc),
                    Ok(mut raw) => {
                        for b in raw.iter_mut() {
                            if b.is_ascii_lowercase() {
                                *b -= 32;
                            }
                        }
                        let r = item.set_raw_name(&raw);
                        l.rc(&r);
                    }
                }
            }
            CbOp::SetIp(a) => {
                if deleted {
                    continue;
                }
                let ty = item.rr_type();
                if ty == 1 && a.len() == 4 {
                    let _ = item.set_rr_ip(&IpAddr::from([a[0], a[1], a[2], a[3]]));
                } else if ty == 28 && a.len() == 16 {
                    let mut b = [0u8; 16];
                    b.copy_from_slice(a);
                    let _ = item.set_rr_ip(&IpAddr::from(b));
                }
            }
            CbOp::SetRawName(n) => {
                // allowed on a deleted record too: the native call reports a void record
                let r = item.set_raw_name(n);
                l.rc(&r);
            }
            CbOp::SetName { text, zone, .. } => {
                let z = if zone.is_empty() { None } else { Some(&zone[..]) };
                let r = match dgen::raw_name_from_str(text, z) {
                    Err(e) => Err(e),
                    Ok(raw) => item.set_raw_name(&raw),
                };
                l.rc(&r);
            }
            CbOp::Delete => {
                let r = item.delete();
                if r.is_ok() {
                    deleted = true;
                }
                l.rc(&r);
            }
            CbOp::Stop => return true,
        }
    }
    false
}

fn native_iter<'a>(first: Option<ResponseIterator<'a>>, progs: &[Vec<CbOp>], l: &mut L) {
    let mut visits: u32 = 0;
    let mut it = first;
    while let Some(mut item) = it {
        l.u8(0xC0);
        l.u16(visits as u16);
        let which = if progs.is_empty() { 0 } else { visits as usize % progs.len() };
        visits += 1;
        let stop = if visits > MAX_VISITS {
            true
        } else if progs.is_empty() {
            false
        } else {
            native_cb(&mut item, &progs[which], l)
        };
        if stop {
            break;
        }
        it = item.next();
    }
    l.u8(0xC1);
    l.u16(visits as u16);
}

fn native_top(pp: &mut ParsedPacket, op: &TopOp) -> Vec<u8> {
    let mut l = L(Vec::new());
    match op {
        TopOp::Flags => l.u32(pp.flags()),
        TopOp::SetFlags(f) => pp.set_flags(*f),
        TopOp::Rcode => l.u8(pp.rcode()),
        TopOp::SetRcode(r) => pp.set_rcode(*r),
        TopOp::Opcode => l.u8(pp.opcode()),
        TopOp::SetOpcode(r) => pp.set_opcode(*r),
        TopOp::Add { section, text } => {
            let sec = match section & 3 {
                0 => Section::Question,
                1 => Section::Answer,
                2 => Section::NameServers,
                _ => Section::Additional,
            };
            // the C side sees the text up to its first NUL
            let n = text.iter().position(|&c| c == 0).unwrap_or(text.len());
            let r = match std::str::from_utf8(&text[..n]) {
                Err(_) => Err(DSError::ParseError.into()),
                Ok(s) => pp.insert_rr_from_string(sec, s),
            };
            l.rc(&r);
        }
        TopOp::RawPacket { cap } => {
            let p = pp.packet();
            if p.len() > *cap as usize {
                l.u8(0xff);
                l.u8(0); // buffer untouched
            } else {
                l.u8(0);
                l.u32(p.len() as u32);
                l.0.extend_from_slice(p);
            }
        }
        TopOp::Question => match pp.question() {
            None => {
                l.u8(0xff);
                l.str(b"");
                l.u16(0);
            }
            Some((name, ty, _)) => {
                if name.len() > 255 {
                    l.u8(0xff);
                    l.str(b"");
                } else {
                    l.u8(0);
                    l.cstr(&name);
                }
                l.u16(ty);
            }
        },
        TopOp::Rename {
            target,
            source,
            suffix,
        } => {
            let r = pp.rename_with_raw_names(target, source, *suffix);
            l.rc(&r);
        }
        TopOp::RawNameFromStr(n) => match dgen::raw_name_from_str(n, None) {
            Ok(raw) => {
                l.u8(0);
                l.str(&raw);
            }
            Err(e) => l.rc(&Err(e)),
        },
        TopOp::Iter { section, progs } => match section & 3 {
            0 => native_iter(pp.into_iter_answer(), progs, &mut l),
            1 => native_iter(pp.into_iter_nameservers(), progs, &mut l),
            2 => native_iter(pp.into_iter_additional(), progs, &mut l),
            _ => {
                let mut visits: u32 = 0;
                let mut it = pp.into_iter_edns();
                while let Some(item) = it {
                    visits += 1;
                    if visits >= MAX_VISITS {
                        break;
                    }
                    it = item.next();
                }
                l.u8(0xC1);
                l.u16(visits as u16);
            }
        },
        TopOp::AbiVersion => l.u64(dnssector::fn_table().abi_version),
    }
    l.0
}

// ---------------------------------------------------------------------------------------------
// execution
// ---------------------------------------------------------------------------------------------

fn viol(clause: &str, op: &str, key: &str, detail: String, step: usize) -> Violation {
    Violation {
        props: vec!["C15"],
        clause: clause.into(),
        op: op.into(),
        key: key.into(),
        detail,
        step,
    }
}

pub struct OutC {
    pub violation: Option<Violation>,
    pub log_hash: u64,
    pub stats: Stats,
    pub changed: bool,
    pub steps: usize,
}

pub fn header_violations() -> Vec<Violation> {
    let mut v = Vec::new();
    if !DRIVER_COMPILED {
        v.push(viol(
            "header-does-not-compile",
            "c_hook.h",
            "driver",
            format!("a hook driver written against the table does not compile against c_hook.h: {}", DRIVER_ERROR),
            0,
        ));
    }
    for (entry, msg) in PROBE_FAILURES {
        v.push(viol(
            "header-signature",
            entry,
            "probe",
            format!(
                "c_hook.h: calling FnTable.{} with the argument types the table takes does not compile: {}",
                entry, msg
            ),
            0,
        ));
    }
    v
}

pub fn exec_c(sc: &ScenC, run_tag: u64, verbose: bool) -> Result<OutC, String> {
    let mut stats = Stats::new();
    let mut log = Fnv::new();
    let parse = |b: &[u8]| DNSSector::new(b.to_vec()).and_then(|d| d.parse());
    let mut pn = parse(&sc.packet).map_err(|e| format!("parser rejects the generated packet: {}", e))?;
    let mut pc = parse(&sc.packet).map_err(|e| e.to_string())?;
    if unsafe { dnssim_driver_ok() } != 1 {
        return Err("C driver not available (did not compile against c_hook.h)".into());
    }
    let table = dnssector::fn_table();
    let mut logbuf = vec![0u8; 1 << 20];
    let mut changed = false;
    let mut steps = 0usize;
    for (i, op) in sc.ops.iter().enumerate() {
        steps += 1;
        let kind = op.kind();
        let before = pn.packet().to_vec();
        // native first: a panic of the native API is a defect shared by both sides (not C15's)
        let nat = guarded(|| native_top(&mut pn, op));
        let nlog = match nat {
            Ok(l) => l,
            Err(p) => {
                // The table entries are `extern "C"`: a panic inside one cannot unwind and aborts
                // the host process. A precondition-respecting call that panics natively is
                // therefore a call that crashes through the table ("rather than by crashing").
                bump(&mut stats, "native_panic_would_abort_through_table");
                log.write_str(&format!("{} native panic", kind));
                return Ok(OutC {
                    violation: Some(Violation {
                        props: vec!["C15"],
                        clause: "crash".into(),
                        op: kind.clone(),
                        key: format!("panic:{}", first_words(&p)),
                        detail: format!(
                            "{} on a precondition-respecting script panics ({}); inside the extern \"C\" table entry that aborts the process instead of returning -1",
                            kind, p
                        ),
                        step: i,
                    }),
                    log_hash: log.finish(),
                    stats,
                    changed,
                    steps,
                });
            }
        };
        if pn.packet.is_none() {
            return Err("native twin lost its packet".into());
        }
        // then the same operation from C, through the header's struct
        let script = encode_top(op);
        if verbose {
            eprintln!("[{}] {} script={} native_log={}", i, kind, codec::hex(&script), codec::hex(&nlog[..nlog.len().min(64)]));
        }
        eprintln!("C {} {} {}", run_tag, i, kind);
        let mut clen: usize = 0;
        let rc = unsafe {
            dnssim_run_op(
                &table,
                &mut pc,
                script.as_ptr(),
                script.len(),
                logbuf.as_mut_ptr(),
                logbuf.len(),
                &mut clen,
            )
        };
        if rc != 0 {
            return Err(format!("C driver returned {} on op {}", rc, kind));
        }
        let clog = &logbuf[..clen];
        if clog != &nlog[..] {
            // a canary marker (0xEE id) at the first point of divergence can only come from C
            let pos = clog.iter().zip(nlog.iter()).position(|(a, b)| a != b).unwrap_or(clog.len().min(nlog.len()));
            if clog.get(pos) == Some(&0xEE) {
                let id = clog.get(pos + 1).copied().unwrap_or(0);
                return Ok(OutC {
                    violation: Some(viol(
                        "buffer-overrun",
                        &kind,
                        &format!("buffer{}", id),
                        format!(
                            "{} wrote outside the caller's buffer (canary {} damaged; 1=name 2=address 3=packet 4=question name 5=raw name)",
                            kind, id
                        ),
                        i,
                    )),
                    log_hash: log.finish(),
                    stats,
                    changed,
                    steps,
                });
            }
        }
        if clog != &nlog[..] {
            let pos = clog.iter().zip(nlog.iter()).position(|(a, b)| a != b).unwrap_or(clog.len().min(nlog.len()));
            let ctx = |l: &[u8]| codec::hex(&l[pos.saturating_sub(8)..l.len().min(pos + 24)]);
            let as_text = |l: &[u8]| String::from_utf8_lossy(&l[..l.len().min(200)]).into_owned();
            return Ok(OutC {
                violation: Some(viol(
                    "table-differs-from-native",
                    &kind,
                    "results",
                    format!(
                        "{}: results through the C table differ from the native call at log byte {} (C ...{}... vs native ...{}...; C log as text {:?}; native {:?})",
                        kind,
                        pos,
                        ctx(clog),
                        ctx(&nlog),
                        as_text(clog),
                        as_text(&nlog)
                    ),
                    i,
                )),
                log_hash: log.finish(),
                stats,
                changed,
                steps,
            });
        }
        match (&pc.packet, &pn.packet) {
            (Some(a), Some(b)) if a == b => {}
            _ => {
                return Ok(OutC {
                    violation: Some(viol(
                        "table-differs-from-native",
                        &kind,
                        "packet",
                        format!("{}: the packet bytes after the C-table call differ from the native call's", kind),
                        i,
                    )),
                    log_hash: log.finish(),
                    stats,
                    changed,
                    steps,
                })
            }
        }
        let oc = observe(&pc);
        let on = observe(&pn);
        if let Some(d) = first_diff(&oc, &on) {
            return Ok(OutC {
                violation: Some(viol(
                    "table-differs-from-native",
                    &kind,
                    "object-state",
                    format!("{}: packet object state after the C-table call differs from the native call's: {}", kind, d),
                    i,
                )),
                log_hash: log.finish(),
                stats,
                changed,
                steps,
            });
        }
        if pn.packet() != &before[..] {
            changed = true;
        }
        let has_rc = !matches!(
            op,
            TopOp::Flags | TopOp::Rcode | TopOp::Opcode | TopOp::AbiVersion | TopOp::SetFlags(_) | TopOp::SetRcode(_) | TopOp::SetOpcode(_)
        );
        if has_rc && nlog.contains(&0xff) {
            bump(&mut stats, &format!("fault_fired:table_call_returned_-1:{}", kind));
            changed = true;
        }
        bump(&mut stats, &format!("table_entry_called:{}", kind));
        if let TopOp::Iter { progs, section } = op {
            if *section != 3 {
                for p in progs {
                    for c in p {
                        let n = match c {
                            CbOp::Name => "name",
                            CbOp::Type => "rr_type",
                            CbOp::Class => "rr_class",
                            CbOp::Ttl => "rr_ttl",
                            CbOp::SetTtl(_) => "set_rr_ttl",
                            CbOp::Ip | CbOp::IpRoomy(_) => "rr_ip",
                            CbOp::SetRawNameCaseFlip => "set_raw_name",
                            CbOp::SetIp(_) => "set_rr_ip",
                            CbOp::SetRawName(_) => "set_raw_name",
                            CbOp::SetName { .. } => "set_name",
                            CbOp::Delete => "delete_rr",
                            CbOp::Stop => "callback_returns_stop",
                        };
                        bump(&mut stats, &format!("callback_op_scripted:{}", n));
                    }
                }
            }
        }
        let mut h = Fnv::new();
        h.write(&nlog);
        h.write(pn.packet());
        log.write_str(&format!("{} {:016x}", kind, h.finish()));
    }
    Ok(OutC {
        violation: None,
        log_hash: log.finish(),
        stats,
        changed,
        steps,
    })
}

// ---------------------------------------------------------------------------------------------
// generation
// ---------------------------------------------------------------------------------------------

fn gen_cb(rng: &mut Rng, fault_pm: usize) -> Vec<CbOp> {
    let n = rng.range(1, 6);
    let mut v = Vec::new();
    for _ in 0..n {
        let fault = rng.below(1000) < fault_pm;
        v.push(match rng.below(14) {
            0 | 1 => CbOp::Name,
            2 => CbOp::Type,
            3 => CbOp::Class,
            4 => CbOp::Ttl,
            5 => CbOp::SetTtl(gen::gen_ttl(rng)),
            6 => {
                if rng.bool() {
                    CbOp::Ip
                } else {
                    CbOp::IpRoomy(*rng.pick(&[1u8, 4, 16, 48]))
                }
            }
            7 => {
                let n = if rng.bool() { 4 } else { 16 };
                CbOp::SetIp(gen::gen_addr(rng, n))
            }
            8 | 9 => {
                if fault {
                    CbOp::SetRawName(match rng.below(5) {
                        0 => vec![],
                        1 => vec![0xc0, 0x0c],
                        2 => {
                            let mut b = vec![0x41];
                            b.extend(vec![b'a'; 70]);
                            b.push(0);
                            b
                        }
                        3 => vec![5, b'a', b'b'],
                        _ => vec![3, b'a', b'.', b'b', 0],
                    })
                } else {
                    let t = *rng.pick(&[1usize, 5, 13, 64, 200, 255]);
                    let nm = if rng.bool() {
                        gen::gen_ldh_name(rng)
                    } else {
                        gen::gen_name_of_len(rng, t)
                    };
                    CbOp::SetRawName(nm.wire())
                }
            }
            10 => {
                let mut text = if fault {
                    rng.pick(&[&b"a..b"[..], &b""[..], &[b'x'; 70][..], &[b'a', 0xc3, 0xa9][..]])
                        .to_vec()
                } else {
                    gen::gen_ldh_name(rng).text()
                };
                if !fault && rng.chance(1, 3) && text != b"." {
                    text.push(b'.'); // fully qualified: the default zone must be ignored
                }
                let zone = match rng.below(6) {
                    0 | 1 => Name::from_labels(&[b"zone", b"test"]).wire(),
                    2 => {
                        // a long zone (so that name + zone approaches or exceeds 255 bytes)
                        let t = *rng.pick(&[60usize, 74, 100, 150, 200]);
                        gen::gen_name_of_len(rng, t).wire()
                    }
                    _ => vec![],
                };
                CbOp::SetName {
                    text,
                    zone,
                    empty_zone_nonnull: rng.bool(),
                }
            }
            11 => CbOp::Delete,
            12 => {
                if rng.bool() {
                    CbOp::Delete
                } else {
                    CbOp::SetRawNameCaseFlip
                }
            }
            _ => CbOp::Stop,
        });
    }
    if rng.below(1000) < fault_pm {
        // delete twice
        v.push(CbOp::Delete);
        v.push(CbOp::Delete);
    }
    v
}

pub fn gen_scen(rng: &mut Rng) -> ScenC {
    let cfg = gen::PacketCfg {
        shape: *rng.pick(&[
            gen::Shape::Tiny,
            gen::Shape::Typical,
            gen::Shape::Typical,
            gen::Shape::Typical,
            gen::Shape::Many,
            gen::Shape::ManySuffixes,
        ]),
        density: *rng.pick(&[0usize, 0, 400, 1000]),
        opt: *rng.pick(&[
            gen::OptPlace::Absent,
            gen::OptPlace::Last,
            gen::OptPlace::Last,
            gen::OptPlace::First,
            gen::OptPlace::Middle,
        ]),
        response: rng.chance(7, 8),
        unique_tags: false,
        max_section: 10,
        header_ptr: false,
    };
    let mut m = gen::gen_msg(rng, &cfg);
    let mut packet = gen::encode_with(&m, &cfg, rng.next_u64());
    if rng.chance(1, 25) && packet.len() + 12 < 8191 {
        // pad to the edge of the declared buffer size: exactly 8191, 8192 or 8193 bytes
        let target = *rng.pick(&[8191usize, 8192, 8192, 8193]);
        let pad = target - packet.len() - 11;
        m.sec[2].push(Rec {
            name: Name::root(),
            rtype: T_TXT,
            class: 1,
            ttl: 1,
            rdata: RData::Opaque(vec![b'p'; pad]),
        });
        let literal_tail = codec::encode_record(m.sec[2].last().unwrap());
        // append the record to the already laid-out packet and bump ARCOUNT
        packet.extend_from_slice(&literal_tail);
        let ar = ((packet[10] as u16) << 8 | packet[11] as u16) + 1;
        packet[10] = (ar >> 8) as u8;
        packet[11] = ar as u8;
    }
    let fault_pm = *rng.pick(&[0usize, 100, 300]);
    let n = match rng.below(10) {
        0..=5 => rng.range(1, 5),
        6..=8 => rng.range(6, 12),
        _ => rng.range(13, 30),
    };
    let names: Vec<Name> = {
        let mut v = vec![];
        if let Some(q) = &m.q {
            v.push(q.name.clone());
        }
        for s in 0..3 {
            for r in &m.sec[s] {
                v.push(r.name.clone());
            }
        }
        v
    };
    let plen = packet.len();
    let mut ops = Vec::new();
    for _ in 0..n {
        let fault = rng.below(1000) < fault_pm;
        ops.push(match rng.below(24) {
            0 => TopOp::Flags,
            1 => TopOp::SetFlags((rng.next_u64() as u32 & !0x8000) | (m.flags as u32 & 0x8000)),
            2 => TopOp::Rcode,
            3 => TopOp::SetRcode(rng.next_u64() as u8),
            4 => TopOp::Opcode,
            5 => TopOp::SetOpcode(rng.next_u64() as u8),
            6..=8 => {
                let mut section = rng.range(1, 3) as u8;
                if !m.is_response() {
                    section = 3;
                }
                let mut text = gen::gen_rr_text(rng);
                if fault {
                    text = gen::damage_rr_text(rng, &text);
                    if rng.chance(1, 6) {
                        section = 0; // full-record text into the question section (a second question)
                    }
                }
                if rng.chance(1, 14) {
                    // several lines in one call: whatever the native text insertion makes of
                    // them, the table entry has to do exactly the same
                    let mut second = gen::gen_rr_text(rng);
                    if rng.bool() {
                        second = gen::damage_rr_text(rng, &second);
                    }
                    let sep = *rng.pick(&["\n", "\n", "\r\n", "\n\n"]);
                    text = format!("{}{}{}", text, sep, second);
                }
                TopOp::Add {
                    section,
                    text: text.into_bytes(),
                }
            }
            9 | 10 => TopOp::RawPacket {
                cap: match rng.below(7) {
                    0 => 0,
                    1 => plen.saturating_sub(1).min(8192) as u16,
                    2 => plen.min(8192) as u16,
                    3 => (plen + 1).min(8192) as u16,
                    4 => 8192,
                    5 => 512,
                    // never more than the buffer size the header declares
                    // (`uint8_t raw_packet[DNS_MAX_PACKET_SIZE]`): a larger stated capacity is
                    // outside the table's documented preconditions
                    _ => rng.below(8193) as u16,
                },
            },
            11 | 12 => TopOp::Question,
            13 | 14 => {
                let src = if names.is_empty() {
                    gen::gen_ldh_name(rng)
                } else {
                    let nm = rng.pick(&names).clone();
                    if nm.0.is_empty() {
                        gen::gen_ldh_name(rng)
                    } else {
                        let k = rng.below(nm.0.len());
                        Name(nm.0[k..].to_vec())
                    }
                };
                if fault {
                    match rng.below(3) {
                        0 => TopOp::Rename {
                            target: vec![],
                            source: src.wire(),
                            suffix: true,
                        },
                        1 => TopOp::Rename {
                            target: gen::gen_name_of_len(rng, 255).wire(),
                            source: src.wire(),
                            suffix: true,
                        },
                        _ => TopOp::Rename {
                            target: vec![b'a'; 256],
                            source: src.wire(),
                            suffix: false,
                        },
                    }
                } else {
                    let mut t = gen::gen_ldh_name(rng);
                    if t.0.is_empty() {
                        t = Name::from_labels(&[b"renamed", b"test"]);
                    }
                    TopOp::Rename {
                        target: t.wire(),
                        source: src.wire(),
                        suffix: rng.bool(),
                    }
                }
            }
            15 => TopOp::RawNameFromStr(if fault {
                rng.pick(&[&b"a..b"[..], &[b'x'; 70][..], &[b'a', 0xc3, 0xa9][..], &[b'y'; 254][..]])
                    .to_vec()
            } else {
                gen::gen_ldh_name(rng).text()
            }),
            16 => TopOp::AbiVersion,
            _ => {
                let section = *rng.pick(&[0u8, 0, 0, 1, 2, 2, 3]);
                let np = rng.range(1, 3);
                TopOp::Iter {
                    section,
                    progs: (0..np).map(|_| gen_cb(rng, fault_pm)).collect(),
                }
            }
        });
    }
    ScenC { packet, ops }
}

pub fn scen_for(seed: u64, run: u64) -> ScenC {
    let s = prng::mix(seed, "C15", run);
    let mut rng = Rng::new(s);
    gen_scen(&mut rng)
}

pub fn run_lane_c(seed: u64, run: u64) -> RunReport {
    let sc = scen_for(seed, run);
    let scenario = serde_json::to_value(&sc).unwrap();
    let mut sh = Fnv::new();
    for op in &sc.ops {
        sh.write_str(&op.kind());
        if let TopOp::Iter { progs, .. } = op {
            for p in progs {
                for c in p {
                    sh.write_str(&format!("{:?}", std::mem::discriminant(c)));
                }
            }
        }
    }
    match exec_c(&sc, run, false) {
        Ok(out) => RunReport {
            log_hash: out.log_hash,
            shape_hash: sh.finish(),
            nontrivial: out.changed,
            steps: out.steps,
            stats: out.stats,
            violation: out.violation.map(|v| (v, scenario.clone())),
            rejected: None,
            scenario,
            lane: "C",
        },
        Err(e) => RunReport {
            log_hash: 0,
            shape_hash: 0,
            nontrivial: false,
            steps: 0,
            stats: Stats::new(),
            violation: None,
            rejected: Some(e),
            scenario,
            lane: "C",
        },
    }
}

pub fn replay(scenario: &Value, verbose: bool) -> Result<Option<Violation>, String> {
    if let Some(entry) = scenario.get("header_probe").and_then(|v| v.as_str()) {
        return Ok(header_violations().into_iter().find(|v| v.op == entry));
    }
    let sc: ScenC = serde_json::from_value(scenario.clone()).map_err(|e| e.to_string())?;
    exec_c(&sc, 0, verbose).map(|o| o.violation)
}

/// A worker died while `run` was in flight: in this lane that is itself a verdict (a hook
/// script that respects the preconditions crashed the process).
pub fn death_violation(seed: u64, run: u64, why: &str) -> Value {
    let sc = scen_for(seed, run);
    // the last "C <run> <step> <op>" marker on the worker's stderr names the call in flight
    let marker = crate::supervisor::marker_line(why, "C ").unwrap_or_default();
    let opname = marker.split_whitespace().nth(3).unwrap_or("table-call").to_string();
    let v = viol(
        "crash",
        &opname,
        "process-died",
        format!(
            "a hook script that respects the table's preconditions crashed the process in {} ({})",
            opname,
            why.lines().find(|l| l.contains("panic") || l.contains("signal")).unwrap_or("").trim()
        ),
        0,
    );
    json!({"run": run, "seed": seed, "lane": "C", "violation": crate::lanes::violation_json(&v),
           "scenario": serde_json::to_value(&sc).unwrap()})
}

/// Runs a candidate in a grandchild process so that a crash is an observable outcome.
fn crashes_or_violates(sc: &ScenC, sig: &str) -> bool {
    let exe = match std::env::current_exe() {
        Ok(e) => e,
        Err(_) => return false,
    };
    let tmp = format!("{}/replays/.cand-{}.json", crate::supervisor::root(), std::process::id());
    let doc = json!({"property": "C15", "lane": "C", "signature": sig, "scenario": sc});
    if std::fs::write(&tmp, doc.to_string()).is_err() {
        return false;
    }
    let st = std::process::Command::new(exe)
        .arg("replay")
        .arg(&tmp)
        .stdout(std::process::Stdio::null())
        .stderr(std::process::Stdio::null())
        .status();
    let _ = std::fs::remove_file(&tmp);
    match st {
        Ok(s) => {
            if sig.starts_with("crash|") {
                s.code().is_none() || s.code().map(|c| c > 2).unwrap_or(false)
            } else {
                s.code() == Some(1)
            }
        }
        Err(_) => false,
    }
}

pub fn minimise(scenario: &Value, sig: &str, budget: usize) -> Value {
    let mut best: ScenC = match serde_json::from_value(scenario.clone()) {
        Ok(s) => s,
        Err(_) => return json!({"scenario": scenario, "candidates": 0}),
    };
    let budget = budget.min(400);
    let mut tried = 0usize;
    let mut check = |c: &ScenC, tried: &mut usize| -> bool {
        *tried += 1;
        crashes_or_violates(c, sig)
    };
    if !check(&best, &mut tried) {
        return json!({"scenario": best, "candidates": tried});
    }
    let mut progress = true;
    while progress && tried < budget {
        progress = false;
        let mut i = best.ops.len();
        while i > 0 && tried < budget {
            i -= 1;
            if best.ops.len() <= 1 {
                break;
            }
            let mut c = best.clone();
            c.ops.remove(i);
            if check(&c, &mut tried) {
                best = c;
                progress = true;
            }
        }
        // shrink callback programs
        for oi in 0..best.ops.len() {
            let nprogs = match &best.ops[oi] {
                TopOp::Iter { progs, .. } => progs.len(),
                _ => 0,
            };
            for pi in 0..nprogs {
                let mut k = match &best.ops[oi] {
                    TopOp::Iter { progs, .. } => progs[pi].len(),
                    _ => 0,
                };
                while k > 0 && tried < budget {
                    k -= 1;
                    let mut c = best.clone();
                    if let TopOp::Iter { progs, .. } = &mut c.ops[oi] {
                        if k >= progs[pi].len() {
                            continue;
                        }
                        progs[pi].remove(k);
                    }
                    if check(&c, &mut tried) {
                        best = c;
                        progress = true;
                    }
                }
            }
        }
        // shrink the packet
        if let Ok(d) = codec::decode(&best.packet) {
            let mut m = d.msg;
            if d.layout.has_pointer && tried < budget {
                let mut c = best.clone();
                c.packet = codec::encode_literal(&m);
                if check(&c, &mut tried) {
                    best = c;
                    progress = true;
                }
            }
            if !codec::decode(&best.packet).map(|d| d.layout.has_pointer).unwrap_or(true) {
                for s in 0..3 {
                    let mut k = m.sec[s].len();
                    while k > 0 && tried < budget {
                        k -= 1;
                        let mut m2 = m.clone();
                        m2.sec[s].remove(k);
                        let mut c = best.clone();
                        c.packet = codec::encode_literal(&m2);
                        if check(&c, &mut tried) {
                            best = c;
                            m = m2;
                            progress = true;
                        }
                    }
                }
            }
        }
    }
    json!({"scenario": best, "candidates": tried})
}
