//! Lane C placeholder (replaced by the real C-table lane).
use crate::exec::Violation;
use crate::lanes::RunReport;
use serde_json::{json, Value};

pub fn run_lane_c(_seed: u64, _run: u64) -> RunReport {
    unimplemented!("lane C")
}
pub fn minimise(scenario: &Value, _sig: &str, _budget: usize) -> Value {
    json!({"scenario": scenario, "candidates": 0})
}
pub fn replay(_scenario: &Value, _verbose: bool) -> Result<Option<Violation>, String> {
    Err("lane C not built".into())
}
pub fn death_violation(_seed: u64, run: u64, why: &str) -> Value {
    json!({"run": run, "why": why})
}
