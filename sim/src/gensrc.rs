//! Adaptive, seeded operation generator (swarm-configured per run).

use crate::exec::*;
use crate::gen::*;
use crate::model::*;
use crate::ops::*;
use crate::prng::Rng;

#[derive(Clone, Copy, Debug, PartialEq, Eq)]
pub enum Focus {
    /// all operations, fault-free (C08)
    View,
    /// the five specified mutators plus context operations, fault-free (C09)
    Effect,
    /// fault-injecting configuration (C10)
    Faults,
    /// complete deletion walks (C11)
    DeleteWalk,
}

pub const FAULT_KINDS: [&str; 9] = [
    "second_question",
    "bad_name",
    "tombstone_reuse",
    "bad_text",
    "rename_overflow",
    "too_large",
    "grow_past_64k",
    "wrong_family",
    "question_text",
];

#[derive(Clone, Debug)]
pub struct Swarm {
    pub focus: Focus,
    pub max_ops: usize,
    /// per mille
    pub fault_pm: usize,
    pub faults: [bool; 9],
    /// weights: tid, flags, rcode, opcode, response, insert_rr, insert_question, insert_text,
    /// rename, recompute, poke, walk
    pub w: [u32; 12],
    /// allow operations that target the OPT record through the including-OPT cursor
    pub touch_opt: bool,
    /// allow operations that lead to policy-only rejected states (query with answers, ...)
    pub policy_states: bool,
}

impl Swarm {
    pub fn draw(rng: &mut Rng, focus: Focus) -> Swarm {
        let mut w: [u32; 12] = [2, 3, 2, 2, 1, 8, 3, 6, 4, 2, 4, 30];
        // swarm: knock out a random subset of operation kinds
        for k in 0..11 {
            if rng.chance(1, 4) {
                w[k] = 0;
            }
        }
        let (fault_pm, max_ops) = match focus {
            Focus::View | Focus::Effect => (0, pick_len(rng)),
            Focus::Faults => (*rng.pick(&[50usize, 250, 250, 500]), pick_len(rng)),
            Focus::DeleteWalk => (0, rng.range(1, 3)),
        };
        if focus == Focus::Effect {
            // emphasise the specified mutators
            w[5] *= 2;
            w[7] *= 2;
            w[11] *= 2;
        }
        if focus == Focus::DeleteWalk {
            w = [0, 0, 0, 0, 0, 1, 0, 1, 1, 0, 1, 40];
        }
        let mut faults = [false; 9];
        if fault_pm > 0 {
            for f in faults.iter_mut() {
                *f = rng.chance(2, 3);
            }
            if !faults.iter().any(|x| *x) {
                faults[rng.below(9)] = true;
            }
        }
        Swarm {
            focus,
            max_ops,
            fault_pm,
            faults,
            w,
            touch_opt: rng.chance(1, 3),
            policy_states: rng.chance(1, 3),
        }
    }
}

fn pick_len(rng: &mut Rng) -> usize {
    match rng.below(10) {
        0..=5 => rng.range(1, 6),
        6..=8 => rng.range(7, 16),
        _ => rng.range(17, 40),
    }
}

#[derive(Clone, Debug)]
enum WalkPlan {
    Random { left: usize },
    /// walk to the end; delete a record on its `v`-th visit with probability p (per mille)
    Complete { p_del: usize, double_delete: bool, pending_double: bool, use_opt: bool },
}

pub struct GenSource {
    pub rng: Rng,
    pub cfg: Swarm,
    emitted: usize,
    plan: WalkPlan,
    /// a fault has been requested for the current walk
    walk_fault: Option<usize>,
    pub faults_requested: [u64; 9],
    /// (uid, visit) pairs on which a deletion has already been decided in the current walk
    decided: std::collections::BTreeSet<(u32, u32)>,
}

impl GenSource {
    pub fn new(seed: u64, cfg: Swarm) -> Self {
        GenSource {
            rng: Rng::new(seed),
            cfg,
            emitted: 0,
            plan: WalkPlan::Random { left: 0 },
            walk_fault: None,
            faults_requested: [0; 9],
            decided: Default::default(),
        }
    }

    fn existing_names(m: &Msg) -> Vec<Name> {
        let mut v = Vec::new();
        if let Some(q) = &m.q {
            v.push(q.name.clone());
        }
        for s in 0..3 {
            for r in &m.sec[s] {
                v.push(r.name.clone());
                match &r.rdata {
                    RData::Name(n) | RData::MX(_, n) => v.push(n.clone()),
                    RData::SOA(a, b, _) => {
                        v.push(a.clone());
                        v.push(b.clone());
                    }
                    _ => {}
                }
            }
        }
        v
    }

    fn gen_valid_raw_name(&mut self, cur: Option<&Name>) -> Vec<u8> {
        // edge arguments: names the call may accept or refuse (either is fine); if it accepts,
        // the result is judged like any other successful operation
        if self.rng.chance(1, 16) {
            return self.gen_bad_raw_name();
        }
        let rng = &mut self.rng;
        let n = match rng.below(10) {
            0 => Name::root(),
            1 => gen_name_of_len(rng, 255),
            2 => {
                let t = *rng.pick(&[3usize, 64, 65, 128, 254]);
                gen_name_of_len(rng, t)
            }
            3 => {
                // the current name with the case of its letters flipped
                match cur {
                    Some(c) => {
                        let mut n = c.clone();
                        for l in n.0.iter_mut() {
                            for b in l.iter_mut() {
                                if b.is_ascii_alphabetic() {
                                    *b ^= 0x20;
                                }
                            }
                        }
                        n
                    }
                    None => gen_ldh_name(rng),
                }
            }
            4 => {
                // same length as the current name
                match cur {
                    Some(c) => {
                        let mut n = c.clone();
                        for l in n.0.iter_mut() {
                            for b in l.iter_mut() {
                                *b = *rng.pick(b"abcxyzQ07-");
                            }
                        }
                        n
                    }
                    None => gen_ldh_name(rng),
                }
            }
            5 => {
                // one label longer
                match cur {
                    Some(c) if c.wire_len() + 4 <= 255 => {
                        let mut n = c.clone();
                        n.0.insert(0, b"new".to_vec());
                        n
                    }
                    _ => gen_ldh_name(rng),
                }
            }
            6 => {
                // one label shorter
                match cur {
                    Some(c) if !c.0.is_empty() => Name(c.0[1..].to_vec()),
                    _ => gen_ldh_name(rng),
                }
            }
            _ => {
                let mut n = gen_name(rng);
                // keep to the parser's character set
                for l in n.0.iter_mut() {
                    for b in l.iter_mut() {
                        if *b < 0x20 || *b == 0x7f || *b == b'.' || *b == b'\\' {
                            *b = b'x';
                        }
                    }
                }
                n
            }
        };
        let mut w = n.wire();
        if rng.chance(1, 10) {
            // trailing bytes after the terminator are ignored by the API
            w.extend_from_slice(b"\x03abc");
        }
        w
    }

    fn gen_bad_raw_name(&mut self) -> Vec<u8> {
        let rng = &mut self.rng;
        match rng.below(8) {
            0 => Vec::new(),
            1 => {
                // label length 64..191
                let mut v = vec![rng.range(64, 191) as u8];
                v.extend(vec![b'a'; 70]);
                v.push(0);
                v
            }
            2 => vec![0xc0, 0x0c],
            3 => vec![3, b'a', b'b', b'c', 0xc0, 0x0c],
            4 => vec![5, b'a', b'b'], // no terminator, truncated label
            5 => {
                // total > 255
                let mut v = Vec::new();
                for _ in 0..5 {
                    v.push(63);
                    v.extend(vec![b'z'; 63]);
                }
                v.push(0);
                v
            }
            6 => vec![3, b'a', b'.', b'b', 0],
            _ => vec![4, b'a', 0x07, b'\\', b'c', 2, b'o', b'k', 0],
        }
    }

    fn gen_insert_rr(&mut self, v: &View, big: Option<usize>) -> Op {
        let rng = &mut self.rng;
        let mut section = rng.range(1, 3);
        if !v.model.is_response() && !self.cfg.policy_states {
            section = 3;
        }
        let mut owner = gen_ldh_name(rng);
        if owner.0.is_empty() {
            owner = Name::from_labels(&[b"example", b"com"]);
        }
        if rng.chance(1, 12) {
            // a label right at the text builders' length limit (which may accept or refuse it)
            let l = *rng.pick(&[61usize, 62, 63, 64, 65]);
            owner = Name(vec![vec![b'k'; l], b"example".to_vec()]);
        }
        let has_opt = v.model.opt_index().is_some();
        if big.is_none() && ((!has_opt && rng.chance(1, 25)) || rng.chance(1, 90)) {
            // adding EDNS to a packet that has none: an OPT record appended to the additional
            // section. Irregular variants (a second OPT record, an OPT record offered to another
            // section or under a non-root owner) may be refused or accepted, but whatever the
            // library answers the packet has to stay one its own parser accepts.
            let opt = gen_opt(rng);
            let rd = match opt.rdata {
                RData::Opaque(o) => o,
                _ => Vec::new(),
            };
            let irregular = has_opt || rng.chance(1, 4);
            let opt_section = if irregular && rng.chance(1, 3) { section } else { 3 };
            let opt_owner: String = if irregular && rng.chance(1, 4) {
                String::from_utf8_lossy(&owner.text()).into_owned()
            } else {
                ".".into()
            };
            return Op::InsertRR {
                section: opt_section,
                name_text: opt_owner,
                rtype: T_OPT,
                ttl: opt.ttl,
                rdata: rd,
                class: 1,
            };
        }
        let (rtype, rdata) = if let Some(n) = big {
            (*rng.pick(&[16u16, 99]), rng.bytes(n))
        } else {
            let rtype = *rng.pick(INSERTABLE_TYPES);
            let mut ng = |r: &mut Rng| gen_ldh_name(r);
            let rd = gen_rdata_for(rng, rtype, &mut ng);
            let wire = match rd {
                RData::A(a) => a.to_vec(),
                RData::AAAA(a) => a.to_vec(),
                RData::Name(n) | RData::DNAME(n) => n.wire(),
                RData::MX(p, n) => {
                    let mut w = p.to_be_bytes().to_vec();
                    w.extend(n.wire());
                    w
                }
                RData::SOA(a, b, m) => {
                    let mut w = a.wire();
                    w.extend(b.wire());
                    w.extend_from_slice(&m);
                    w
                }
                RData::Opaque(o) => o,
            };
            (rtype, wire)
        };
        Op::InsertRR {
            section,
            name_text: String::from_utf8_lossy(&owner.text()).into_owned(),
            rtype,
            ttl: gen_ttl(rng),
            rdata,
            class: if rng.chance(1, 8) { *rng.pick(&[3u16, 4, 254, 255]) } else { 1 },
        }
    }

    fn gen_rename(&mut self, v: &View, overflow: bool) -> Op {
        let names = Self::existing_names(v.model);
        let rng = &mut self.rng;
        let src_name = if !names.is_empty() && rng.chance(9, 10) {
            let n = rng.pick(&names).clone();
            if n.0.is_empty() {
                gen_ldh_name(rng)
            } else {
                let k = rng.below(n.0.len());
                let mut s = Name(n.0[k..].to_vec());
                if rng.chance(1, 4) {
                    // case variant
                    for l in s.0.iter_mut() {
                        l.make_ascii_uppercase();
                    }
                }
                s
            }
        } else {
            gen_ldh_name(rng)
        };
        let suffix = rng.chance(2, 3);
        if rng.chance(1, 10) && !names.is_empty() {
            // aim at the 255-byte limit: pick a name, a proper suffix of it as source, and a target
            // that makes the rewritten name exactly 254, 255 or 256 bytes long
            let n = rng.pick(&names).clone();
            if n.0.len() >= 2 {
                let k = rng.range(1, n.0.len() - 1);
                let prefix_len: usize = n.0[..k].iter().map(|l| l.len() + 1).sum();
                let src = Name(n.0[k..].to_vec());
                let want = 255i64 - prefix_len as i64 + *rng.pick(&[-1i64, 0, 0, 1]);
                if want >= 3 && want <= 255 {
                    let tgt = gen_name_of_len(rng, want as usize);
                    return Op::Rename {
                        target: tgt.wire(),
                        source: src.wire(),
                        suffix: true,
                    };
                }
            }
        }
        if overflow {
            return match rng.below(5) {
                0 => Op::Rename {
                    target: Vec::new(),
                    source: src_name.wire(),
                    suffix,
                },
                1 => Op::Rename {
                    target: gen_ldh_name(rng).wire(),
                    source: Vec::new(),
                    suffix,
                },
                2 => Op::Rename {
                    target: vec![b'a'; 256],
                    source: src_name.wire(),
                    suffix,
                },
                3 => Op::Rename {
                    // forbidden characters in the new name
                    target: vec![3, b'a', b'.', b'b', 0],
                    source: src_name.wire(),
                    suffix: true,
                },
                _ => Op::Rename {
                    target: {
                        let t = *rng.pick(&[255usize, 250, 240]);
                        gen_name_of_len(rng, t).wire()
                    },
                    source: src_name.wire(),
                    suffix: true,
                },
            };
        }
        let mut target = gen_ldh_name(rng);
        if target.0.is_empty() {
            target = Name::from_labels(&[b"renamed", b"test"]);
        }
        if rng.chance(1, 8) {
            target = src_name.clone();
        }
        Op::Rename {
            target: target.wire(),
            source: src_name.wire(),
            suffix,
        }
    }

    fn fault_op(&mut self, v: &View) -> Option<Op> {
        let enabled: Vec<usize> = (0..9).filter(|&i| self.cfg.faults[i]).collect();
        if enabled.is_empty() {
            return None;
        }
        let k = *self.rng.pick(&enabled);
        self.faults_requested[k] += 1;
        match k {
            0 => Some(if self.rng.bool() {
                Op::InsertQuestion {
                    name_text: "second.example".into(),
                    qtype: 1,
                }
            } else {
                Op::InsertQuestion {
                    name_text: String::from_utf8_lossy(&gen_ldh_name(&mut self.rng).text()).into_owned(),
                    qtype: 28,
                }
            }),
            3 => {
                let t = gen_rr_text(&mut self.rng);
                let t = damage_rr_text(&mut self.rng, &t);
                Some(Op::InsertText {
                    section: self.rng.range(1, 3),
                    text: t,
                })
            }
            4 => Some(self.gen_rename(v, true)),
            5 => {
                // aim at the boundary: uncompressed length + record length in {8191..8194}, or far beyond
                let unc = crate::codec::encode_literal(v.model).len();
                let owner_len = 13; // "example.com" -> 13 bytes wire; the generator below may differ, so jitter
                let room = 8192usize.saturating_sub(unc + owner_len + 10);
                let delta = *self.rng.pick(&[-40i64, -1, 0, 1, 2, 40, 3000]);
                let n = (room as i64 + delta).max(1) as usize;
                let mut n = n.min(60000);
                if self.rng.chance(1, 12) {
                    // a record whose own wire length is around 65536 (data lengths up to 65535 are legal)
                    n = *self.rng.pick(&[65535usize, 65534, 65526, 65520, 65510, 65500, 65280]);
                }
                Some(self.gen_insert_rr(v, Some(n)))
            }
            8 => {
                // full-record text into the question section
                if v.model.q.is_some() {
                    Some(Op::InsertText {
                        section: 0,
                        text: gen_rr_text(&mut self.rng),
                    })
                } else {
                    None
                }
            }
            // cursor-level faults are delivered inside a walk
            1 | 2 | 6 | 7 => {
                self.walk_fault = Some(k);
                let kind = if k == 7 {
                    *self.rng.pick(&[W_ANSWER, W_NAMESERVERS, W_ADDITIONAL])
                } else {
                    *self.rng.pick(&[W_QUESTION, W_ANSWER, W_ANSWER, W_NAMESERVERS, W_ADDITIONAL, W_ADDITIONAL_OPT])
                };
                self.plan = WalkPlan::Random {
                    left: self.rng.range(2, 8),
                };
                Some(Op::Walk {
                    kind,
                    steps: Vec::new(),
                })
            }
            _ => None,
        }
    }
}

impl Source for GenSource {
    fn next_op(&mut self, v: &View) -> Option<Op> {
        if self.emitted >= self.cfg.max_ops {
            return None;
        }
        self.emitted += 1;
        self.walk_fault = None;
        self.decided.clear();
        if self.cfg.fault_pm > 0 && self.rng.below(1000) < self.cfg.fault_pm {
            if let Some(op) = self.fault_op(v) {
                return Some(op);
            }
        }
        let mut w = self.cfg.w;
        if v.model.q.is_some() {
            w[6] = 0; // a second question is a fault, not a normal operation
        } else {
            w[6] = w[6].max(4);
        }
        let k = self.rng.weighted(&w);
        let rng = &mut self.rng;
        Some(match k {
            0 => Op::SetTid(rng.next_u64() as u16),
            1 => {
                let mut f = rng.next_u64() as u32;
                if !self.cfg.policy_states {
                    // keep the QR bit as it is
                    f = (f & !0x8000) | (v.model.flags as u32 & 0x8000);
                }
                Op::SetFlags(f)
            }
            2 => Op::SetRcode(rng.next_u64() as u8),
            3 => Op::SetOpcode(rng.next_u64() as u8),
            4 => {
                let want = rng.bool();
                if !self.cfg.policy_states
                    && !want
                    && (v.model.count(SEC_AN) > 0 || v.model.count(SEC_NS) > 0)
                {
                    Op::SetResponse(true)
                } else {
                    Op::SetResponse(want)
                }
            }
            5 => self.gen_insert_rr(v, None),
            6 if rng.chance(1, 3) => Op::InsertText {
                // the text form of "insert into the question section" (what add_to_question does)
                section: 0,
                text: gen_rr_text(rng),
            },
            6 => {
                let n = gen_ldh_name(rng);
                Op::InsertQuestion {
                    name_text: String::from_utf8_lossy(&n.text()).into_owned(),
                    qtype: *rng.pick(&[1u16, 28, 2, 15, 255, 16]),
                }
            }
            7 => {
                let mut section = rng.range(1, 3);
                if !v.model.is_response() && !self.cfg.policy_states {
                    section = 3;
                }
                Op::InsertText {
                    section,
                    text: gen_rr_text(rng),
                }
            }
            8 => self.gen_rename(v, false),
            9 => Op::Recompute,
            10 => Op::Poke(rng.below(4) as u8),
            _ => {
                // walk
                let kinds: &[u8] = if self.cfg.focus == Focus::DeleteWalk {
                    &[W_QUESTION, W_ANSWER, W_ANSWER, W_NAMESERVERS, W_ADDITIONAL, W_ADDITIONAL, W_ADDITIONAL_OPT]
                } else {
                    &[
                        W_QUESTION,
                        W_ANSWER,
                        W_ANSWER,
                        W_ANSWER,
                        W_NAMESERVERS,
                        W_NAMESERVERS,
                        W_ADDITIONAL,
                        W_ADDITIONAL,
                        W_ADDITIONAL_OPT,
                        W_EDNS,
                    ]
                };
                let mut kind = *rng.pick(kinds);
                // a deletion walk over the question first, so that the walks that follow meet a
                // packet whose first record section begins right behind the header
                let question_first = self.cfg.focus == Focus::DeleteWalk
                    && self.emitted <= 1
                    && v.model.q.is_some()
                    && rng.chance(1, 10);
                if question_first {
                    kind = W_QUESTION;
                }
                // prefer non-empty sections
                for _ in 0..3 {
                    let n = if kind == W_EDNS {
                        v.layout.opts.len()
                    } else {
                        v.model.count(walk_section(kind))
                    };
                    if n > 0 {
                        break;
                    }
                    kind = *rng.pick(kinds);
                }
                let complete = match self.cfg.focus {
                    Focus::DeleteWalk => true,
                    _ => rng.chance(1, 4),
                };
                self.plan = if complete {
                    WalkPlan::Complete {
                        p_del: if question_first { 1000 } else { *rng.pick(&[0usize, 100, 300, 300, 600, 1000]) },
                        double_delete: rng.chance(1, 3),
                        pending_double: false,
                        use_opt: kind == W_ADDITIONAL_OPT,
                    }
                } else {
                    WalkPlan::Random {
                        left: rng.range(1, 8),
                    }
                };
                Op::Walk {
                    kind,
                    steps: Vec::new(),
                }
            }
        })
    }

    fn next_cur(&mut self, c: &CurView) -> Option<CurOp> {
        let on_opt = c.rec.map(|r| r.is_opt()).unwrap_or(false);
        let advance = |rng: &mut Rng, kind: u8, prefer_opt: bool| -> CurOp {
            if kind == W_ADDITIONAL_OPT || kind == W_ADDITIONAL {
                if prefer_opt {
                    if rng.chance(9, 10) {
                        CurOp::NextOpt
                    } else {
                        CurOp::Next
                    }
                } else if rng.chance(1, 8) {
                    CurOp::NextOpt
                } else {
                    CurOp::Next
                }
            } else {
                CurOp::Next
            }
        };
        match self.plan.clone() {
            WalkPlan::Complete {
                p_del,
                double_delete,
                pending_double,
                use_opt,
            } => {
                if c.idx.is_none() {
                    // tombstone
                    if pending_double {
                        self.plan = WalkPlan::Complete {
                            p_del,
                            double_delete,
                            pending_double: false,
                            use_opt,
                        };
                        return Some(CurOp::Delete);
                    }
                    return Some(advance(&mut self.rng, c.kind, use_opt));
                }
                if c.kind == W_EDNS {
                    return Some(CurOp::Next);
                }
                // decide on this visit: the chance applies on every visit, so records are
                // deleted on their first, second, ... visit
                let fresh = self.decided.insert((c.uid.unwrap_or(0), c.visits));
                if !fresh {
                    // already acted on this visit (e.g. a delete that was refused): move on
                    return Some(advance(&mut self.rng, c.kind, use_opt));
                }
                let may_delete = !(on_opt && !self.cfg.touch_opt);
                if may_delete && self.rng.below(1000) < p_del {
                    if double_delete && self.rng.chance(1, 2) {
                        self.plan = WalkPlan::Complete {
                            p_del,
                            double_delete,
                            pending_double: true,
                            use_opt,
                        };
                    }
                    return Some(CurOp::Delete);
                }
                if self.cfg.focus != Focus::DeleteWalk && self.rng.chance(1, 6) && !on_opt {
                    if let Some(op) = self.random_mutation(c) {
                        return Some(op);
                    }
                }
                Some(advance(&mut self.rng, c.kind, use_opt))
            }
            WalkPlan::Random { left } => {
                if left == 0 {
                    return None;
                }
                self.plan = WalkPlan::Random { left: left - 1 };
                // deliver a requested cursor-level fault
                if let Some(f) = self.walk_fault {
                    match f {
                        1 => {
                            if c.idx.is_some() && c.kind != W_EDNS && self.rng.chance(1, 2) {
                                self.walk_fault = None;
                                return Some(CurOp::SetRawName(self.gen_bad_raw_name()));
                            }
                        }
                        2 => {
                            if c.idx.is_none() && c.kind != W_EDNS {
                                self.walk_fault = None;
                                return Some(if self.rng.bool() {
                                    CurOp::Delete
                                } else {
                                    let n = self.gen_valid_raw_name(None);
                                    CurOp::SetRawName(n)
                                });
                            }
                            if c.idx.is_some() && c.kind != W_EDNS && !(on_opt && !self.cfg.touch_opt) {
                                return Some(CurOp::Delete);
                            }
                        }
                        6 => {
                            if c.idx.is_some() && c.kind != W_EDNS && !on_opt {
                                self.walk_fault = None;
                                // aim at the 65535-byte boundary when it is within reach
                                let cur_len = if c.kind == W_QUESTION {
                                    c.model.q.as_ref().map(|q| q.name.wire_len()).unwrap_or(1)
                                } else {
                                    c.rec.map(|r| r.name.wire_len()).unwrap_or(1)
                                };
                                let unc = crate::codec::encode_literal(c.model).len();
                                let mut target = 255usize;
                                if unc + 255 > 65535 && unc <= 65535 + cur_len {
                                    let exact = 65535 + cur_len - unc; // lands on exactly 65535
                                    let want = exact as i64 + *self.rng.pick(&[-1i64, 0, 0, 1, 1, 2]);
                                    if (3..=255).contains(&want) {
                                        target = want as usize;
                                    }
                                }
                                let n = gen_name_of_len(&mut self.rng, target);
                                return Some(CurOp::SetRawName(n.wire()));
                            }
                        }
                        7 => {
                            if let Some(r) = c.rec {
                                if !on_opt {
                                    self.walk_fault = None;
                                    let n = if r.rtype == T_A { 16 } else { 4 };
                                    return Some(CurOp::SetIp(gen_addr(&mut self.rng, n)));
                                }
                            }
                        }
                        _ => {}
                    }
                }
                if c.idx.is_none() {
                    return Some(match self.rng.below(10) {
                        0 => CurOp::Uncompress,
                        _ => advance(&mut self.rng, c.kind, c.kind == W_ADDITIONAL_OPT),
                    });
                }
                if c.kind == W_EDNS {
                    return Some(if self.rng.chance(1, 6) && self.cfg.touch_opt {
                        CurOp::Uncompress
                    } else {
                        CurOp::Next
                    });
                }
                if on_opt && !self.cfg.touch_opt {
                    return Some(advance(&mut self.rng, c.kind, true));
                }
                if self.rng.chance(3, 5) {
                    if let Some(op) = self.random_mutation(c) {
                        return Some(op);
                    }
                }
                Some(advance(&mut self.rng, c.kind, c.kind == W_ADDITIONAL_OPT))
            }
        }
    }
}

impl GenSource {
    fn random_mutation(&mut self, c: &CurView) -> Option<CurOp> {
        let cur_name: Option<Name> = if c.kind == W_QUESTION {
            c.model.q.as_ref().map(|q| q.name.clone())
        } else {
            c.rec.map(|r| r.name.clone())
        };
        if c.kind == W_QUESTION {
            return Some(match self.rng.below(10) {
                0..=5 => CurOp::SetRawName(self.gen_valid_raw_name(cur_name.as_ref())),
                6 | 7 => CurOp::Delete,
                _ => CurOp::Uncompress,
            });
        }
        let rec = c.rec?;
        Some(match self.rng.below(12) {
            0..=4 => CurOp::SetRawName(self.gen_valid_raw_name(cur_name.as_ref())),
            5 | 6 => CurOp::SetTtl(gen_ttl(&mut self.rng)),
            7 | 8 => {
                if (rec.rtype == T_A || rec.rtype == T_AAAA) && self.rng.chance(1, 10) {
                    // edge argument: an address of the other family (incl. IPv4-mapped IPv6);
                    // the call may refuse it; if it accepts, the result is judged as usual
                    let n = if rec.rtype == T_A { 16 } else { 4 };
                    CurOp::SetIp(gen_addr(&mut self.rng, n))
                } else if rec.rtype == T_A {
                    CurOp::SetIp(gen_addr(&mut self.rng, 4))
                } else if rec.rtype == T_AAAA {
                    CurOp::SetIp(gen_addr(&mut self.rng, 16))
                } else {
                    CurOp::SetTtl(gen_ttl(&mut self.rng))
                }
            }
            9 | 10 => CurOp::Delete,
            _ => CurOp::Uncompress,
        })
    }
}
