//! Lane T: deterministic step scheduler over real, parked OS threads.
//!
//! K real threads, each blocked on its own channel. The simulator thread alone decides, from the
//! seeded PRNG, which thread performs its next step; exactly one thread is ever runnable, so the
//! interleaving is a pure function of the seed while `thread_local!` storage, the threads and the
//! library code are all real. Serves C16 (error slot privacy) and C17 (purity across histories
//! and threads).

use crate::battery::guarded;
use crate::codec;
use crate::exec::{bump, Stats, Violation};
use crate::gen;
use crate::lanes::RunReport;
use crate::prng::{self, Fnv, Rng};
use dnssector::c_abi::{CErr, FnTable, SectionIterator};
use dnssector::synth::r#gen as dgen;
use dnssector::*;
use serde::{Deserialize, Serialize};
use serde_json::{json, Value};
use std::ffi::{c_void, CStr, CString};
use std::sync::mpsc::{channel, Receiver, Sender};

// ---------------------------------------------------------------------------------------------
// generic parked-thread scheduler
// ---------------------------------------------------------------------------------------------

/// A worker thread: receives "do your next step" tokens, replies with the step's result.
pub struct Parked<R: Send + 'static> {
    go: Vec<Sender<bool>>,
    done: Vec<Receiver<R>>,
    handles: Vec<std::thread::JoinHandle<()>>,
}

impl<R: Send + 'static> Parked<R> {
    /// `make(i)` builds the per-thread step closure *inside* thread i (so that whatever it owns
    /// lives in that thread); the closure is called once per token.
    pub fn spawn<F, G>(k: usize, make: F) -> Parked<R>
    where
        F: Fn(usize) -> G + Send + Sync + 'static,
        G: FnMut() -> R,
    {
        let make = std::sync::Arc::new(make);
        let mut go = Vec::new();
        let mut done = Vec::new();
        let mut handles = Vec::new();
        for i in 0..k {
            let (gtx, grx) = channel::<bool>();
            let (dtx, drx) = channel::<R>();
            let make = make.clone();
            let h = std::thread::Builder::new()
                .stack_size(1 << 20)
                .spawn(move || {
                    let mut step = make(i);
                    while let Ok(true) = grx.recv() {
                        let r = step();
                        if dtx.send(r).is_err() {
                            break;
                        }
                    }
                })
                .expect("spawn");
            go.push(gtx);
            done.push(drx);
            handles.push(h);
        }
        Parked { go, done, handles }
    }

    /// Lets thread `i` perform exactly one step and waits for it.
    pub fn step(&self, i: usize) -> Option<R> {
        self.go[i].send(true).ok()?;
        self.done[i].recv().ok()
    }

    pub fn finish(self) {
        for g in &self.go {
            let _ = g.send(false);
        }
        drop(self.go);
        for h in self.handles {
            let _ = h.join();
        }
    }
}

/// Schedules: uniform random, or PCT-style (random priorities, d change points).
pub fn gen_schedule(rng: &mut Rng, k: usize, lens: &[usize]) -> Vec<usize> {
    let total: usize = lens.iter().sum();
    let mut left = lens.to_vec();
    let mut sched = Vec::with_capacity(total);
    if rng.chance(1, 2) {
        // uniform over threads that still have steps
        while sched.len() < total {
            let live: Vec<usize> = (0..k).filter(|&i| left[i] > 0).collect();
            let i = live[rng.below(live.len())];
            left[i] -= 1;
            sched.push(i);
        }
    } else {
        // PCT: run the highest-priority live thread; at d random change points demote it
        let d = rng.range(1, 3);
        let mut prio: Vec<usize> = (0..k).collect();
        for i in (1..k).rev() {
            prio.swap(i, rng.below(i + 1));
        }
        let mut change: Vec<usize> = (0..d).map(|_| rng.below(total.max(1))).collect();
        change.sort();
        while sched.len() < total {
            if change.first() == Some(&sched.len()) {
                change.remove(0);
                let top = prio.remove(0);
                prio.push(top);
                continue;
            }
            let i = *prio.iter().find(|&&i| left[i] > 0).unwrap();
            left[i] -= 1;
            sched.push(i);
        }
    }
    sched
}

// ---------------------------------------------------------------------------------------------
// C16: error descriptions are private to the calling thread
// ---------------------------------------------------------------------------------------------

#[derive(Clone, Debug, Serialize, Deserialize, PartialEq, Eq)]
pub enum Step16 {
    Fail(u8),
    /// a failing call on one of the run's long-lived shared packets (slot index): the packet
    /// outlives the call and may be used by another thread next (a packet handed down a pipeline)
    FailOn(u8, u8),
    Read,
    Okay(u8),
    /// a failing call made with a NULL error out-pointer (the caller does not want the
    /// description): nothing of this thread's may change, nothing of another thread's either
    FailNull(u8),
    /// a failing call whose error variable holds, on entry, the pointer another live thread of
    /// the run got from its last failure (an out-parameter's previous content is arbitrary)
    FailPre(u8),
}

#[derive(Clone, Debug, Serialize, Deserialize)]
pub struct Scen16 {
    pub threads: Vec<Vec<Step16>>,
    pub schedule: Vec<usize>,
    /// thread churn: before schedule position `.0`, `.1` short-lived threads are created one
    /// after the other; each performs one failing call of kind `.2` and exits
    #[serde(default)]
    pub churn: Vec<(usize, usize, u8)>,
}

const N_FAIL_KINDS: u8 = 22;

fn base_packet() -> Vec<u8> {
    // response with a question and three A answers; built by the harness codec
    use crate::model::*;
    let n = Name::from_labels(&[b"www", b"example", b"com"]);
    let rec = |last: u8| Rec {
        name: n.clone(),
        rtype: T_A,
        class: 1,
        ttl: 300,
        rdata: RData::A([192, 0, 2, last]),
    };
    let m = Msg {
        id: 0x1234,
        flags: 0x8180,
        q: Some(Question {
            name: n.clone(),
            qtype: 1,
            qclass: 1,
        }),
        sec: [vec![rec(1), rec(2), rec(3)], vec![], vec![]],
    };
    codec::encode_literal(&m)
}

/// the base packet with an 8100-byte opaque record in the additional section (8192 is near)
fn big_packet() -> Vec<u8> {
    let mut p = base_packet();
    let filler = vec![b'f'; 8100];
    p.extend_from_slice(&[0, 0, 99, 0, 1, 0, 0, 0, 1]);
    p.extend_from_slice(&(filler.len() as u16).to_be_bytes());
    p.extend_from_slice(&filler);
    p[11] += 1;
    p
}

struct CbCtx {
    table: *const FnTable,
    err: *const CErr,
    /// pass a NULL error out-pointer to the calls made inside the callback
    null_err: bool,
    kind: u8,
    rc: i32,
    native_text: Option<String>,
}

unsafe extern "C" fn cb16(ctx: *mut c_void, it: *const SectionIterator) -> bool {
    let ctx = &mut *(ctx as *mut CbCtx);
    let t = &*ctx.table;
    let it = &mut *(it as *mut SectionIterator);
    let errp: *mut *const CErr = if ctx.null_err { std::ptr::null_mut() } else { &mut ctx.err };
    match ctx.kind {
        8 => {
            let r1 = (t.delete)(it, errp);
            let r2 = (t.delete)(it, errp);
            ctx.rc = if r1 == 0 { r2 } else { r1 };
        }
        9 => {
            let mut nm = vec![0x40u8];
            nm.extend(vec![b'a'; 70]);
            nm.push(0);
            ctx.rc = (t.set_raw_name)(it, errp, nm.as_ptr(), nm.len());
        }
        10 => {
            let nm = [0xc0u8, 0x0c];
            ctx.rc = (t.set_raw_name)(it, errp, nm.as_ptr(), nm.len());
        }
        11 => {
            let nm = b"a..b";
            ctx.rc = (t.set_name)(
                it,
                errp,
                nm.as_ptr() as *const _,
                nm.len(),
                std::ptr::null(),
                0,
            );
        }
        12 | 13 | 14 | 15 | 21 => {
            let nm: Vec<u8> = match ctx.kind {
                21 => vec![1, b'a'],
                12 => vec![5, b'a', b'b'],
                13 => vec![],
                14 => vec![3, b'a', b'.', b'b', 0],
                _ => {
                    let mut v = Vec::new();
                    for _ in 0..5 {
                        v.push(63);
                        v.extend(vec![b'z'; 63]);
                    }
                    v.push(0);
                    v
                }
            };
            ctx.rc = (t.set_raw_name)(it, errp, nm.as_ptr(), nm.len());
        }
        100 => {
            // succeeding calls inside a callback
            (t.set_rr_ttl)(it, 77);
            ctx.rc = (t.rr_ttl)(it) as i32 - 77;
        }
        _ => {}
    }
    true
}

fn long_txt() -> String {
    format!("example.com. 60 IN TXT \"{}\"", "x".repeat(5000))
}

fn long_owner_text() -> String {
    let mut s = String::new();
    for _ in 0..63 {
        s.push_str("abc.");
    }
    s.push_str("example.com. 60 IN A 192.0.2.1");
    s
}

/// Text of the native error for the same failing call (so that rewording messages cannot raise
/// an alarm).
fn native_fail_text(kind: u8, bytes: &[u8]) -> Option<String> {
    let parse = || DNSSector::new(bytes.to_vec()).ok()?.parse().ok();
    match kind {
        0 => parse()?
            .insert_rr_from_string(Section::Answer, "this is not a record")
            .err()
            .map(|e| e.to_string()),
        1 => parse()?
            .insert_rr_from_string(Section::Question, "second.example. 60 IN A 192.0.2.9")
            .err()
            .map(|e| e.to_string()),
        2 => dgen::raw_name_from_str(b"a..b", None).err().map(|e| e.to_string()),
        3 => dgen::raw_name_from_str(&vec![b'x'; 70], None).err().map(|e| e.to_string()),
        4 => {
            let mut s = Vec::new();
            for _ in 0..60 {
                s.extend_from_slice(b"abc.");
            }
            s.extend_from_slice(b"abcdefghijklmnop");
            dgen::raw_name_from_str(&s, None).err().map(|e| e.to_string())
        }
        5 => dgen::raw_name_from_str(&[b'a', 0xc3, 0xa9], None).err().map(|e| e.to_string()),
        6 => parse()?
            .rename_with_raw_names(&[], b"\x03www\x07example\x03com\x00", false)
            .err()
            .map(|e| e.to_string()),
        7 => parse()?
            .rename_with_raw_names(b"\x00", b"\x03www\x07example\x03com\x00", false)
            .err()
            .map(|e| e.to_string()),
        8 => {
            let mut p = parse()?;
            let mut it = p.into_iter_answer()?;
            it.delete().ok()?;
            it.delete().err().map(|e| e.to_string())
        }
        9 => {
            let mut p = parse()?;
            let mut it = p.into_iter_answer()?;
            let mut nm = vec![0x40u8];
            nm.extend(vec![b'a'; 70]);
            nm.push(0);
            it.set_raw_name(&nm).err().map(|e| e.to_string())
        }
        10 => {
            let mut p = parse()?;
            let mut it = p.into_iter_answer()?;
            it.set_raw_name(&[0xc0, 0x0c]).err().map(|e| e.to_string())
        }
        11 => dgen::raw_name_from_str(b"a..b", None).err().map(|e| e.to_string()),
        19 => parse()?
            // the renamer accepts the new name, the re-parse refuses its characters
            .rename_with_raw_names(b"\x03a.b\x00", b"\x07example\x03com\x00", true)
            .err()
            .map(|e| e.to_string()),
        20 => DNSSector::new(big_packet())
            .ok()?
            .parse()
            .ok()?
            .insert_rr_from_string(Section::Answer, "big.example.com. 60 IN A 192.0.2.1")
            .err()
            .map(|e| e.to_string()),
        21 => {
            let mut p = parse()?;
            let mut it = p.into_iter_answer()?;
            it.set_raw_name(&[1, b'a']).err().map(|e| e.to_string())
        }
        16 => parse()?
            .insert_rr_from_string(Section::Answer, &long_txt())
            .err()
            .map(|e| e.to_string()),
        17 => parse()?
            .insert_rr_from_string(Section::Answer, &long_owner_text())
            .err()
            .map(|e| e.to_string()),
        18 => parse()?
            .insert_rr_from_string(Section::Answer, "example.com. 60 IN MX 70000 mx.example.com.")
            .err()
            .map(|e| e.to_string()),
        12 | 13 | 14 | 15 => {
            let nm: Vec<u8> = match kind {
                12 => vec![5, b'a', b'b'],
                13 => vec![],
                14 => vec![3, b'a', b'.', b'b', 0],
                _ => {
                    let mut v = Vec::new();
                    for _ in 0..5 {
                        v.push(63);
                        v.extend(vec![b'z'; 63]);
                    }
                    v.push(0);
                    v
                }
            };
            let mut p = parse()?;
            let mut it = p.into_iter_answer()?;
            it.set_raw_name(&nm).err().map(|e| e.to_string())
        }
        _ => None,
    }
}

/// Performs a failing call through the C table on the calling thread. Returns (rc, expected text).
unsafe fn table_fail(t: &FnTable, err: *mut *const CErr, kind: u8, bytes: &[u8]) -> (i32, Option<String>) {
    let mut pp = match DNSSector::new(bytes.to_vec()).and_then(|d| d.parse()) {
        Ok(p) => p,
        Err(_) => return (0, None),
    };
    table_fail_on(t, err, kind, &mut pp)
}

/// Same, on a packet that outlives the call.
unsafe fn table_fail_on(t: &FnTable, err: *mut *const CErr, kind: u8, pp_ext: &mut ParsedPacket) -> (i32, Option<String>) {
    let bytes_now: Vec<u8> = match &pp_ext.packet {
        Some(b) => b.clone(),
        None => return (0, None),
    };
    let bytes = &bytes_now[..];
    let expected = native_fail_text(kind, bytes);
    let pp = pp_ext;
    let rc = match kind {
        0 => {
            let s = CString::new("this is not a record").unwrap();
            (t.add_to_answer)(&mut *pp, err, s.as_ptr())
        }
        1 => {
            let s = CString::new("second.example. 60 IN A 192.0.2.9").unwrap();
            (t.add_to_question)(&mut *pp, err, s.as_ptr())
        }
        19 => {
            let src = b"\x07example\x03com\x00";
            let tgt = b"\x03a.b\x00";
            (t.rename_with_raw_names)(&mut *pp, err, tgt.as_ptr(), tgt.len(), src.as_ptr(), src.len(), true)
        }
        20 => {
            let mut big = match DNSSector::new(big_packet()).and_then(|d| d.parse()) {
                Ok(p) => p,
                Err(_) => return (0, None),
            };
            let s = CString::new("big.example.com. 60 IN A 192.0.2.1").unwrap();
            (t.add_to_answer)(&mut big, err, s.as_ptr())
        }
        16 | 17 | 18 => {
            let text = match kind {
                16 => long_txt(),
                17 => long_owner_text(),
                _ => "example.com. 60 IN MX 70000 mx.example.com.".to_string(),
            };
            let s = CString::new(text).unwrap();
            (t.add_to_answer)(&mut *pp, err, s.as_ptr())
        }
        2 | 3 | 4 | 5 => {
            let name: Vec<u8> = match kind {
                2 => b"a..b".to_vec(),
                3 => vec![b'x'; 70],
                4 => {
                    let mut s = Vec::new();
                    for _ in 0..60 {
                        s.extend_from_slice(b"abc.");
                    }
                    s.extend_from_slice(b"abcdefghijklmnop");
                    s
                }
                _ => vec![b'a', 0xc3, 0xa9],
            };
            let mut raw = [0u8; 256];
            let mut raw_len: usize = 0;
            (t.raw_name_from_str)(&mut raw, &mut raw_len, err, name.as_ptr() as *const _, name.len())
        }
        6 => {
            let src = b"\x03www\x07example\x03com\x00";
            let empty: [u8; 0] = [];
            (t.rename_with_raw_names)(&mut *pp, err, empty.as_ptr(), 0, src.as_ptr(), src.len(), false)
        }
        7 => {
            let src = b"\x03www\x07example\x03com\x00";
            let tgt = b"\x00";
            (t.rename_with_raw_names)(&mut *pp, err, tgt.as_ptr(), tgt.len(), src.as_ptr(), src.len(), false)
        }
        8..=15 | 21 => {
            let mut ctx = CbCtx {
                table: t,
                err: if err.is_null() { std::ptr::null() } else { *err },
                null_err: err.is_null(),
                kind,
                rc: 0,
                native_text: None,
            };
            (t.iter_answer)(&mut *pp, cb16, &mut ctx as *mut _ as *mut c_void);
            if !err.is_null() {
                *err = ctx.err;
            }
            let _ = &ctx.native_text;
            ctx.rc
        }
        _ => 0,
    };
    (rc, expected)
}

unsafe fn table_ok(t: &FnTable, kind: u8, bytes: &[u8]) -> bool {
    let mut pp = match DNSSector::new(bytes.to_vec()).and_then(|d| d.parse()) {
        Ok(p) => p,
        Err(_) => return true,
    };
    let mut err: *const CErr = std::ptr::null();
    match kind % 4 {
        0 => {
            let f = (t.flags)(&pp);
            (t.set_flags)(&mut pp, f);
            true
        }
        1 => {
            let name = b"ok.example.com";
            let mut raw = [0u8; 256];
            let mut raw_len: usize = 0;
            (t.raw_name_from_str)(&mut raw, &mut raw_len, &mut err, name.as_ptr() as *const _, name.len()) == 0
        }
        2 => {
            let mut ctx = CbCtx {
                table: t,
                err: std::ptr::null(),
                null_err: false,
                kind: 100,
                rc: 0,
                native_text: None,
            };
            (t.iter_answer)(&mut pp, cb16, &mut ctx as *mut _ as *mut c_void);
            ctx.rc == 0
        }
        _ => {
            let s = CString::new("extra.example.com. 60 IN A 192.0.2.77").unwrap();
            (t.add_to_additional)(&mut pp, &mut err, s.as_ptr()) == 0
        }
    }
}

#[derive(Debug)]
enum Res16 {
    /// FAIL performed: (return code, expected text from the native error)
    Failed(i32, Option<String>),
    /// a failing call with a NULL out-pointer performed
    FailedNull(i32, Option<String>),
    /// READ performed: the description read, or None if this thread has not failed yet
    Read(Option<String>),
    Okay(bool),
    Exhausted,
    Panicked(String),
}

fn exec16(sc: &Scen16) -> (Option<Violation>, u64, Stats, bool) {
    let k = sc.threads.len();
    let scripts = sc.threads.clone();
    let bytes = base_packet();
    // long-lived packets shared by all threads of the run (one thread runs at a time)
    let slots: std::sync::Arc<Vec<std::sync::Mutex<Option<ParsedPacket>>>> = std::sync::Arc::new(
        (0..2)
            .map(|_| std::sync::Mutex::new(DNSSector::new(bytes.clone()).and_then(|d| d.parse()).ok()))
            .collect(),
    );
    let slots_for_threads = slots.clone();
    let run_tag = RUN_IN_FLIGHT.load(std::sync::atomic::Ordering::Relaxed);
    // the pointer each live thread got from its last failure (0 = none yet), for FailPre
    let last_ptr: std::sync::Arc<Vec<std::sync::atomic::AtomicUsize>> =
        std::sync::Arc::new((0..k).map(|_| std::sync::atomic::AtomicUsize::new(0)).collect());
    let parked: Parked<Res16> = Parked::spawn(k, move |i| {
        let script = scripts[i].clone();
        let bytes = bytes.clone();
        let slots = slots_for_threads.clone();
        let last_ptr = last_ptr.clone();
        let table = dnssector::fn_table();
        let mut err: *const CErr = std::ptr::null();
        let mut pc = 0usize;
        move || {
            let step = match script.get(pc) {
                Some(s) => s.clone(),
                None => return Res16::Exhausted,
            };
            pc += 1;
            // names the step in flight, should the process die inside it
            eprintln!("T {} {} {:?}", run_tag, i, step);
            let r = guarded(|| unsafe {
                match step {
                    Step16::Fail(kind) => {
                        let (rc, exp) = table_fail(&table, &mut err, kind, &bytes);
                        last_ptr[i].store(err as usize, std::sync::atomic::Ordering::SeqCst);
                        Res16::Failed(rc, exp)
                    }
                    Step16::FailNull(kind) => {
                        let (rc, exp) = table_fail(&table, std::ptr::null_mut(), kind, &bytes);
                        Res16::FailedNull(rc, exp)
                    }
                    Step16::FailPre(kind) => {
                        // another live thread's pointer, never dereferenced by this harness
                        let other = (1..last_ptr.len())
                            .map(|d| last_ptr[(i + d) % last_ptr.len()].load(std::sync::atomic::Ordering::SeqCst))
                            .find(|&p| p != 0);
                        let mut var: *const CErr = match other {
                            Some(p) => p as *const CErr,
                            None => err,
                        };
                        let (rc, exp) = table_fail(&table, &mut var, kind, &bytes);
                        if rc == -1 {
                            err = var;
                            last_ptr[i].store(err as usize, std::sync::atomic::Ordering::SeqCst);
                        }
                        Res16::Failed(rc, exp)
                    }
                    Step16::FailOn(kind, slot) => {
                        let mut g = match slots[slot as usize % slots.len()].lock() {
                            Ok(g) => g,
                            Err(p) => p.into_inner(),
                        };
                        match g.as_mut() {
                            Some(pp) => {
                                let (rc, exp) = table_fail_on(&table, &mut err, kind, pp);
                                Res16::Failed(rc, exp)
                            }
                            None => Res16::Failed(0, None),
                        }
                    }
                    Step16::Read => {
                        if err.is_null() {
                            Res16::Read(None)
                        } else {
                            let p = (table.error_description)(err);
                            Res16::Read(Some(CStr::from_ptr(p).to_string_lossy().into_owned()))
                        }
                    }
                    Step16::Okay(kind) => Res16::Okay(table_ok(&table, kind, &bytes)),
                }
            });
            match r {
                Ok(r) => r,
                Err(p) => Res16::Panicked(p),
            }
        }
    });
    let mut last_fail: Vec<Option<String>> = vec![None; k];
    let mut also_ok: Vec<Option<String>> = vec![None; k];
    let mut log = Fnv::new();
    let mut stats = Stats::new();
    let mut violation = None;
    let mut foreign_between = vec![false; k]; // another thread failed since this thread's last FAIL
    let mut nontrivial = false;
    for (pos, &i) in sc.schedule.iter().enumerate() {
        if i >= k {
            continue;
        }
        for (at, count, kind) in &sc.churn {
            if *at == pos {
                let bytes = base_packet();
                for n in 0..*count {
                    let b = bytes.clone();
                    // kind 255: cycle through every failure kind (many distinct descriptions)
                    // kind 254: as 255, every other thread with a NULL out-pointer; 200+k: kind k
                    // with a NULL out-pointer (a thread that fails without ever asking for the text)
                    let (kind, null_out) = match *kind {
                        255 => ((n % N_FAIL_KINDS as usize) as u8, false),
                        254 => ((n % N_FAIL_KINDS as usize) as u8, n % 2 == 0),
                        k if k >= 200 => ((k - 200) % N_FAIL_KINDS, true),
                        k => (k, false),
                    };
                    let h = std::thread::Builder::new().stack_size(1 << 18).spawn(move || {
                        let table = dnssector::fn_table();
                        let mut err: *const CErr = std::ptr::null();
                        let errp: *mut *const CErr = if null_out { std::ptr::null_mut() } else { &mut err };
                        let _ = guarded(|| unsafe { table_fail(&table, errp, kind, &b) });
                    });
                    if let Ok(h) = h {
                        let _ = h.join();
                    }
                    bump(&mut stats, "churn_threads");
                }
                // every live thread has now been "interleaved" with foreign failures
                for f in foreign_between.iter_mut() {
                    *f = true;
                }
                log.write_str("churn");
            }
        }
        let r = match parked.step(i) {
            Some(r) => r,
            None => break,
        };
        log.write_str(&format!("{}:{:?}", i, r));
        match r {
            Res16::Failed(rc, exp) => {
                if rc == -1 {
                    bump(&mut stats, "fault_fired:table_call_failed");
                    also_ok[i] = None;
                    if let Some(e) = exp {
                        last_fail[i] = Some(e);
                        for j in 0..k {
                            if j != i {
                                foreign_between[j] = true;
                            }
                        }
                        foreign_between[i] = false;
                    } else {
                        // the native call did not fail where the table call did: cannot judge
                        last_fail[i] = None;
                        bump(&mut stats, "unjudgeable_fail");
                    }
                } else {
                    bump(&mut stats, "fail_step_did_not_fail");
                }
            }
            Res16::FailedNull(rc, exp) => {
                if rc == -1 {
                    bump(&mut stats, "fault_fired:table_call_failed_null_out_pointer");
                    // The caller declined the description. Whether that failure counts as the
                    // thread's "most recent" one is not settled by the property: accept, at the
                    // thread's next read, the previous description as well as this one.
                    also_ok[i] = exp;
                    for j in 0..k {
                        if j != i {
                            foreign_between[j] = true;
                        }
                    }
                } else {
                    bump(&mut stats, "fail_step_did_not_fail");
                }
            }
            Res16::Read(Some(text)) => {
                bump(&mut stats, "reads");
                if let Some(exp) = &last_fail[i] {
                    if foreign_between[i] {
                        nontrivial = true;
                        bump(&mut stats, "probe:read_after_foreign_failure");
                    }
                    if &text != exp && also_ok[i].as_ref() != Some(&text) {
                        let whose = (0..k)
                            .find(|&j| j != i && last_fail[j].as_deref() == Some(text.as_str()))
                            .map(|j| format!(" (that is thread {}'s failure)", j))
                            .unwrap_or_default();
                        violation = Some(Violation {
                            props: vec!["C16"],
                            clause: "wrong-description".into(),
                            op: "error_description".into(),
                            // one class: whose text was read instead is in the detail only (it
                            // can depend on what earlier runs of the process left behind)
                            key: "not-own-last-failure".into(),
                            detail: format!(
                                "thread {} read description {:?} at schedule position {} but its most recent failure was {:?}{}",
                                i, text, pos, exp, whose
                            ),
                            step: pos,
                        });
                        break;
                    }
                }
            }
            Res16::Read(None) => {}
            Res16::Okay(ok) => {
                if !ok {
                    bump(&mut stats, "ok_step_failed");
                }
            }
            Res16::Exhausted => {}
            Res16::Panicked(p) => {
                violation = Some(Violation {
                    props: vec![],
                    clause: "unclaimed-panic".into(),
                    op: "table-call".into(),
                    key: crate::exec::first_words(&p),
                    detail: p,
                    step: pos,
                });
                break;
            }
        }
    }
    parked.finish();
    drop(slots);
    (violation, log.finish(), stats, nontrivial)
}

pub static RUN_IN_FLIGHT: std::sync::atomic::AtomicU64 = std::sync::atomic::AtomicU64::new(0);

fn gen16(rng: &mut Rng) -> Scen16 {
    let k = rng.range(2, 4);
    // swarm: each run draws its failure kinds from a small palette, so that different threads
    // often fail with the *same* text as well as with different ones
    let palette: Vec<u8> = {
        let n = *rng.pick(&[2usize, 2, 3, 4, 6, N_FAIL_KINDS as usize]);
        (0..n).map(|_| rng.below(N_FAIL_KINDS as usize) as u8).collect()
    };
    // swarm: in a third of the runs some failing calls use an unusual error out-parameter
    let unusual_out = rng.chance(1, 3);
    let mut threads = Vec::new();
    for ti in 0..k {
        let n = rng.range(2, 8);
        let mut s = Vec::new();
        for _ in 0..n {
            if unusual_out && rng.chance(1, 5) {
                s.push(if rng.bool() {
                    Step16::FailNull(*rng.pick(&palette))
                } else {
                    Step16::FailPre(*rng.pick(&palette))
                });
                continue;
            }
            s.push(match rng.below(10) {
                0..=2 => Step16::Fail(*rng.pick(&palette)),
                3 => Step16::FailOn(*rng.pick(&palette), rng.below(2) as u8),
                4..=7 => Step16::Read,
                _ => Step16::Okay(rng.below(4) as u8),
            });
        }
        // make sure a READ follows a FAIL somewhere; in runs with unusual out-parameters a
        // later thread may start with reads/succeeding calls so that its first failure comes late
        if !(unusual_out && ti > 0 && rng.bool()) {
            s.insert(0, Step16::Fail(*rng.pick(&palette)));
        }
        s.push(Step16::Read);
        threads.push(s);
    }
    let lens: Vec<usize> = threads.iter().map(|t| t.len()).collect();
    let schedule = gen_schedule(rng, k, &lens);
    let mut churn = Vec::new();
    if rng.chance(1, 12) || (unusual_out && rng.chance(1, 3)) {
        let at = rng.below(schedule.len().max(1));
        let count = if rng.chance(1, 6) { rng.range(260, 320) } else { rng.range(30, 70) };
        let kind = if unusual_out && rng.bool() {
            if rng.bool() {
                254
            } else {
                200 + rng.below(N_FAIL_KINDS as usize) as u8
            }
        } else if rng.bool() {
            255
        } else {
            rng.below(N_FAIL_KINDS as usize) as u8
        };
        churn.push((at, count, kind));
    }
    Scen16 {
        threads,
        schedule,
        churn,
    }
}

pub fn run_c16(seed: u64, run: u64) -> RunReport {
    let s = prng::mix(seed, "C16", run);
    let mut rng = Rng::new(s);
    let sc = gen16(&mut rng);
    RUN_IN_FLIGHT.store(run, std::sync::atomic::Ordering::Relaxed);
    let (v, log_hash, mut stats, nontrivial) = exec16(&sc);
    bump(&mut stats, &format!("threads:{}", sc.threads.len()));
    let scenario = serde_json::to_value(&sc).unwrap();
    let mut sh = Fnv::new();
    sh.write_str(&scenario.to_string());
    RunReport {
        log_hash,
        shape_hash: sh.finish(),
        nontrivial,
        steps: sc.schedule.len(),
        stats,
        violation: v.map(|v| (v, scenario.clone())),
        rejected: None,
        scenario,
        lane: "T",
    }
}

// ---------------------------------------------------------------------------------------------
// C17: results depend only on the arguments
// ---------------------------------------------------------------------------------------------

#[derive(Clone, Debug, Serialize, Deserialize, PartialEq, Eq)]
pub enum Call17 {
    Parse(#[serde(with = "crate::ops::hexbytes")] Vec<u8>),
    Uncompress(#[serde(with = "crate::ops::hexbytes")] Vec<u8>),
    UncompressOffset(#[serde(with = "crate::ops::hexbytes")] Vec<u8>, usize),
    Compress(#[serde(with = "crate::ops::hexbytes")] Vec<u8>),
    Rename {
        #[serde(with = "crate::ops::hexbytes")]
        packet: Vec<u8>,
        #[serde(with = "crate::ops::hexbytes")]
        target: Vec<u8>,
        #[serde(with = "crate::ops::hexbytes")]
        source: Vec<u8>,
        suffix: bool,
    },
    FromString(String),
    RawName(#[serde(with = "crate::ops::hexbytes")] Vec<u8>),
    /// name conversion through the C table entry `raw_name_from_str`
    TableRawName(#[serde(with = "crate::ops::hexbytes")] Vec<u8>),
    Query(String, u16),
    Empty,
}

impl Call17 {
    fn kind(&self) -> &'static str {
        match self {
            Call17::Parse(_) => "parse",
            Call17::Uncompress(_) => "uncompress",
            Call17::UncompressOffset(..) => "uncompress_with_previous_offset",
            Call17::Compress(_) => "compress",
            Call17::Rename { .. } => "rename",
            Call17::FromString(_) => "rr_from_string",
            Call17::RawName(_) => "raw_name_from_str",
            Call17::TableRawName(_) => "table_raw_name_from_str",
            Call17::Query(..) => "gen_query",
            Call17::Empty => "empty_packet",
        }
    }
}

/// Outcome of a call: Ok(bytes) | Err(text) | Panic(text), as a string.
pub fn eval17(c: &Call17) -> String {
    let r = guarded(|| match c {
        Call17::Parse(b) => match DNSSector::new(b.clone()).and_then(|d| d.parse()) {
            Ok(p) => format!(
                "ok {:?} {:?} {:?} {:?} {:?} {} {:?} {:?} {:?} {} {}",
                p.offset_question,
                p.offset_answers,
                p.offset_nameservers,
                p.offset_additional,
                p.offset_edns,
                p.edns_count,
                p.ext_rcode,
                p.edns_version,
                p.ext_flags,
                p.max_payload,
                codec::hex(p.packet())
            ),
            Err(e) => format!("err {}", e),
        },
        Call17::Uncompress(b) => match Compress::uncompress(b) {
            Ok(v) => format!("ok {}", codec::hex(&v)),
            Err(e) => format!("err {}", e),
        },
        Call17::UncompressOffset(b, o) => match Compress::uncompress_with_previous_offset(b, *o) {
            Ok((v, n)) => format!("ok {} {}", n, codec::hex(&v)),
            Err(e) => format!("err {}", e),
        },
        Call17::Compress(b) => match Compress::compress(b) {
            Ok(v) => format!("ok {}", codec::hex(&v)),
            Err(e) => format!("err {}", e),
        },
        Call17::Rename {
            packet,
            target,
            source,
            suffix,
        } => match DNSSector::new(packet.clone()).and_then(|d| d.parse()) {
            Ok(mut p) => match Renamer::rename_with_raw_names(&mut p, target, source, *suffix) {
                Ok(v) => format!("ok {}", codec::hex(&v)),
                Err(e) => format!("err {}", e),
            },
            Err(e) => format!("unparsed {}", e),
        },
        Call17::FromString(s) => match dgen::RR::from_string(s) {
            Ok(rr) => format!("ok {}", codec::hex(&rr.packet)),
            Err(e) => format!("err {}", e),
        },
        Call17::RawName(n) => match dgen::raw_name_from_str(n, None) {
            Ok(v) => format!("ok {}", codec::hex(&v)),
            Err(e) => format!("err {}", e),
        },
        Call17::TableRawName(n) => {
            let t = dnssector::fn_table();
            let mut raw = [0u8; 256];
            let mut raw_len: usize = 0;
            let mut err: *const CErr = std::ptr::null();
            let rc = unsafe {
                (t.raw_name_from_str)(&mut raw, &mut raw_len, &mut err, n.as_ptr() as *const _, n.len())
            };
            if rc == 0 {
                format!("ok {}", codec::hex(&raw[..raw_len.min(256)]))
            } else {
                let d = unsafe { CStr::from_ptr((t.error_description)(err)) };
                format!("err {}", d.to_string_lossy())
            }
        }
        Call17::Empty => {
            let p = ParsedPacket::empty();
            // only the transaction id (bytes 0-1) may vary
            format!(
                "ok {} {:?} {:?} {} {}",
                codec::hex(&p.packet()[2..]),
                p.offset_question,
                p.offset_edns,
                p.maybe_compressed,
                p.max_payload
            )
        }
        Call17::Query(name, ty) => {
            let t = match *ty {
                28 => Type::AAAA,
                15 => Type::MX,
                _ => Type::A,
            };
            match dgen::query(name.as_bytes(), t, Class::IN) {
                // the transaction id (bytes 0-1) is the one permitted random part
                Ok(p) => format!("ok {}", codec::hex(&p.packet()[2..])),
                Err(e) => format!("err {}", e),
            }
        }
    });
    match r {
        Ok(s) => s,
        Err(p) => format!("panic {}", p),
    }
}

#[derive(Clone, Debug, Serialize, Deserialize)]
pub struct Scen17 {
    pub calls: Vec<Call17>,
    /// history mode: order of call indices on one long-lived thread
    pub order: Vec<usize>,
    /// cross-thread mode: per-thread call indices, and the schedule
    pub threads: Vec<Vec<usize>>,
    pub schedule: Vec<usize>,
}

fn gen17(rng: &mut Rng) -> Scen17 {
    let n = rng.range(6, 24);
    // packets share the small label alphabet of gen.rs, so their suffixes overlap
    let mut packets: Vec<Vec<u8>> = Vec::new();
    let np = rng.range(2, 5);
    for _ in 0..np {
        let cfg = gen::PacketCfg {
            shape: *rng.pick(&[
                gen::Shape::Tiny,
                gen::Shape::Typical,
                gen::Shape::Typical,
                gen::Shape::Many,
                gen::Shape::ManySuffixes,
            ]),
            density: *rng.pick(&[0usize, 0, 500, 1000]),
            opt: *rng.pick(&[gen::OptPlace::Absent, gen::OptPlace::Last, gen::OptPlace::Last]),
            response: true,
            unique_tags: false,
            max_section: 10,
            header_ptr: false,
        };
        let m = gen::gen_msg(rng, &cfg);
        packets.push(gen::encode_with(&m, &cfg, rng.next_u64()));
    }
    let mut calls = Vec::new();
    for _ in 0..n {
        let p = rng.pick(&packets).clone();
        calls.push(match rng.below(12) {
            0 | 1 => Call17::Parse(p),
            2 | 3 => Call17::Uncompress(p),
            4 => Call17::UncompressOffset(p, 12),
            5 | 6 => {
                // compress wants pointer-free input: feed the harness's literal encoding
                match codec::decode(&p) {
                    Ok(d) => Call17::Compress(codec::encode_literal(&d.msg)),
                    Err(_) => Call17::Compress(p),
                }
            }
            7 | 8 => {
                let names = match codec::decode(&p) {
                    Ok(d) => {
                        let mut v = vec![];
                        if let Some(q) = d.msg.q {
                            v.push(q.name);
                        }
                        for s in 0..3 {
                            for r in &d.msg.sec[s] {
                                v.push(r.name.clone());
                            }
                        }
                        v
                    }
                    Err(_) => vec![],
                };
                let src = if names.is_empty() {
                    gen::gen_ldh_name(rng)
                } else {
                    let nm = rng.pick(&names).clone();
                    if nm.0.is_empty() {
                        gen::gen_ldh_name(rng)
                    } else {
                        let k = rng.below(nm.0.len());
                        crate::model::Name(nm.0[k..].to_vec())
                    }
                };
                // some renames are made to fail part-way through the packet (a rewritten name
                // would exceed 255 bytes): state left behind by a failed call is state too
                let target = if rng.chance(1, 3) {
                    let t = *rng.pick(&[200usize, 230, 250, 255]);
                    gen::gen_name_of_len(rng, t).wire()
                } else {
                    gen::gen_ldh_name(rng).wire()
                };
                Call17::Rename {
                    packet: p,
                    target,
                    source: src.wire(),
                    suffix: rng.chance(2, 3),
                }
            }
            9 => {
                let t = gen::gen_rr_text(rng);
                if rng.chance(1, 5) {
                    Call17::FromString(gen::damage_rr_text(rng, &t))
                } else if rng.chance(1, 4) {
                    // same owner up to letter case as some other record text is likely to have
                    Call17::FromString(t.to_ascii_uppercase().replace(" IN ", " IN ").replace("\tIN", "\tIN"))
                } else {
                    Call17::FromString(t)
                }
            }
            10 => {
                let good = gen::gen_ldh_name(rng).text();
                let bad: Vec<u8> = rng
                    .pick(&[&b"ab.c..d"[..], &b"first.xxxxxxxxxxxxxxxxxxxxxxxxxxxxxxxxxxxxxxxxxxxxxxxxxxxxxxxxxxxxxxxxxxxxxx.org"[..], &b"a.b\xc3\xa9.c"[..], &b"..x"[..]])
                    .to_vec();
                match rng.below(4) {
                    0 => Call17::RawName(good),
                    1 => Call17::RawName(bad),
                    2 => Call17::TableRawName(good),
                    _ => Call17::TableRawName(bad),
                }
            }
            _ => {
                if rng.chance(1, 4) {
                    Call17::Empty
                } else {
                    Call17::Query(
                        String::from_utf8_lossy(&gen::gen_ldh_name(rng).text()).into_owned(),
                        *rng.pick(&[1u16, 28, 15]),
                    )
                }
            }
        });
    }
    // twins: the same rename with the other matching mode, so that both modes meet back to back
    let mut twins: Vec<(usize, usize)> = Vec::new();
    for i in 0..calls.len() {
        if let Call17::Rename {
            packet,
            target,
            source,
            suffix,
        } = &calls[i]
        {
            if rng.chance(1, 2) && calls.len() < 40 {
                let twin = Call17::Rename {
                    packet: packet.clone(),
                    target: target.clone(),
                    source: source.clone(),
                    suffix: !*suffix,
                };
                calls.push(twin);
                twins.push((i, calls.len() - 1));
            }
        }
    }
    let n = calls.len();
    let mut order = Vec::new();
    let m = rng.range(n, 3 * n);
    for _ in 0..m {
        order.push(rng.below(n));
        if !twins.is_empty() && rng.chance(1, 6) {
            // a twin pair, adjacent, in either order
            let (a, b) = *rng.pick(&twins);
            if rng.bool() {
                order.push(a);
                order.push(b);
            } else {
                order.push(b);
                order.push(a);
            }
        }
    }
    let k = rng.range(2, 4);
    let mut threads = vec![Vec::new(); k];
    for _ in 0..rng.range(n, 2 * n) {
        let t = rng.below(k);
        threads[t].push(rng.below(n));
    }
    let lens: Vec<usize> = threads.iter().map(|t| t.len()).collect();
    let schedule = gen_schedule(rng, k, &lens);
    Scen17 {
        calls,
        order,
        threads,
        schedule,
    }
}

fn short(s: &str) -> String {
    if s.len() > 90 {
        format!("{}...[{} chars]", &s[..90], s.len())
    } else {
        s.to_string()
    }
}

fn exec17(sc: &Scen17) -> (Option<Violation>, u64, Stats, bool) {
    let mut stats = Stats::new();
    let mut log = Fnv::new();
    // baseline: each call alone in a fresh thread
    let mut base: Vec<String> = Vec::new();
    for c in &sc.calls {
        let c2 = c.clone();
        let h = std::thread::Builder::new()
            .stack_size(1 << 20)
            .spawn(move || eval17(&c2))
            .expect("spawn");
        base.push(h.join().unwrap_or_else(|_| "thread-died".into()));
    }
    for b in &base {
        log.write_str(b);
        if b.starts_with("panic") {
            bump(&mut stats, "baseline_outcome:panic");
        } else if b.starts_with("err") || b.starts_with("unparsed") {
            bump(&mut stats, "baseline_outcome:err");
        } else {
            bump(&mut stats, "baseline_outcome:ok");
        }
    }
    let mut kinds = std::collections::BTreeMap::new();
    for c in &sc.calls {
        *kinds.entry(c.kind()).or_insert(0) += 1;
    }
    let nontrivial = kinds.values().any(|&n| n >= 2);
    // history mode: one long-lived thread (this one)
    for (pos, &i) in sc.order.iter().enumerate() {
        if i >= sc.calls.len() {
            continue;
        }
        let r = eval17(&sc.calls[i]);
        log.write_str(&r);
        bump(&mut stats, "history_calls");
        if r != base[i] {
            return (
                Some(Violation {
                    props: vec!["C17"],
                    clause: "result-depends-on-history".into(),
                    op: sc.calls[i].kind().into(),
                    key: "same-thread".into(),
                    detail: format!(
                        "{} returned [{}] alone but [{}] as call #{} of a sequence on one thread",
                        sc.calls[i].kind(),
                        short(&base[i]),
                        short(&r),
                        pos
                    ),
                    step: pos,
                }),
                log.finish(),
                stats,
                nontrivial,
            );
        }
    }
    // cross-thread mode
    let k = sc.threads.len();
    if k > 0 {
        let calls = sc.calls.clone();
        let per = sc.threads.clone();
        let parked: Parked<Option<(usize, String)>> = Parked::spawn(k, move |t| {
            let mine = per[t].clone();
            let calls = calls.clone();
            let mut pc = 0usize;
            move || {
                let i = *mine.get(pc)?;
                pc += 1;
                let c = calls.get(i)?;
                Some((i, eval17(c)))
            }
        });
        let mut v = None;
        for (pos, &t) in sc.schedule.iter().enumerate() {
            if t >= k {
                continue;
            }
            match parked.step(t) {
                Some(Some((i, r))) => {
                    log.write_str(&r);
                    bump(&mut stats, "cross_thread_calls");
                    if r != base[i] {
                        v = Some(Violation {
                            props: vec!["C17"],
                            clause: "result-depends-on-history".into(),
                            op: sc.calls[i].kind().into(),
                            key: "cross-thread".into(),
                            detail: format!(
                                "{} returned [{}] alone but [{}] on thread {} at schedule position {}",
                                sc.calls[i].kind(),
                                short(&base[i]),
                                short(&r),
                                t,
                                pos
                            ),
                            step: pos,
                        });
                        break;
                    }
                }
                _ => {}
            }
        }
        parked.finish();
        if v.is_some() {
            return (v, log.finish(), stats, nontrivial);
        }
    }
    (None, log.finish(), stats, nontrivial)
}

pub fn run_c17(seed: u64, run: u64) -> RunReport {
    let s = prng::mix(seed, "C17", run);
    let mut rng = Rng::new(s);
    let sc = gen17(&mut rng);
    let (v, log_hash, stats, nontrivial) = exec17(&sc);
    let mut sh = Fnv::new();
    for c in &sc.calls {
        sh.write_str(c.kind());
    }
    for o in &sc.order {
        sh.write_u64(*o as u64);
    }
    for o in &sc.schedule {
        sh.write_u64(*o as u64);
    }
    let scenario = serde_json::to_value(&sc).unwrap();
    // evidence samples would be huge with packets in hex: keep a digest
    let sample = json!({
        "calls": sc.calls.iter().map(|c| c.kind()).collect::<Vec<_>>(),
        "order": sc.order,
        "threads": sc.threads,
        "schedule": sc.schedule,
    });
    RunReport {
        log_hash,
        shape_hash: sh.finish(),
        nontrivial,
        steps: sc.order.len() + sc.schedule.len() + sc.calls.len(),
        stats,
        violation: v.map(|v| (v, scenario)),
        rejected: None,
        scenario: sample,
        lane: "T",
    }
}

// ---------------------------------------------------------------------------------------------
// replay / minimise
// ---------------------------------------------------------------------------------------------

/// A worker died while a C16 step was in flight (e.g. a description read through a pointer the
/// library had already freed): the scenario is regenerated from (seed, run).
pub fn death_violation_c16(seed: u64, run: u64, why: &str) -> Value {
    let s = prng::mix(seed, "C16", run);
    let mut rng = Rng::new(s);
    let sc = gen16(&mut rng);
    let marker = crate::supervisor::marker_line(why, "T ").unwrap_or_default();
    let v = Violation {
        props: vec!["C16"],
        clause: "crash".into(),
        op: if marker.contains("Read") { "error_description".into() } else { "table-call".into() },
        key: "process-died".into(),
        detail: format!(
            "the process died while a thread was performing [{}]: the description (or the slot behind it) did not stay intact until that thread's next failure ({})",
            marker,
            why.lines().find(|l| l.contains("signal")).unwrap_or("").trim().chars().take(160).collect::<String>()
        ),
        step: 0,
    };
    json!({"run": run, "seed": seed, "lane": "T", "violation": crate::lanes::violation_json(&v),
           "scenario": serde_json::to_value(&sc).unwrap()})
}

pub fn replay(prop: &str, scenario: &Value, _verbose: bool) -> Result<Option<Violation>, String> {
    match prop {
        "C16" => {
            let sc: Scen16 = serde_json::from_value(scenario.clone()).map_err(|e| e.to_string())?;
            Ok(exec16(&sc).0)
        }
        "C17" => {
            let sc: Scen17 = serde_json::from_value(scenario.clone()).map_err(|e| e.to_string())?;
            Ok(exec17(&sc).0)
        }
        _ => Err("lane T serves C16 and C17".into()),
    }
}

pub fn minimise(prop: &str, scenario: &Value, sig: &str, budget: usize) -> Value {
    let mut tried = 0usize;
    match prop {
        "C16" => {
            let mut best: Scen16 = match serde_json::from_value(scenario.clone()) {
                Ok(s) => s,
                Err(_) => return json!({"scenario": scenario, "candidates": 0}),
            };
            let ok = |s: &Scen16, tried: &mut usize| -> bool {
                *tried += 1;
                matches!(exec16(s).0, Some(v) if v.signature() == sig)
            };
            if !best.churn.is_empty() {
                let mut c = best.clone();
                c.churn.clear();
                if ok(&c, &mut tried) {
                    best = c;
                }
            }
            let mut progress = true;
            while progress && tried < budget {
                progress = false;
                // drop schedule entries (which drops the corresponding step execution)
                let mut i = best.schedule.len();
                while i > 0 && tried < budget {
                    i -= 1;
                    let mut c = best.clone();
                    c.schedule.remove(i);
                    if ok(&c, &mut tried) {
                        best = c;
                        progress = true;
                    }
                }
                // drop script steps
                for t in 0..best.threads.len() {
                    let mut j = best.threads[t].len();
                    while j > 0 && tried < budget {
                        j -= 1;
                        let mut c = best.clone();
                        c.threads[t].remove(j);
                        if ok(&c, &mut tried) {
                            best = c;
                            progress = true;
                        }
                    }
                }
            }
            json!({"scenario": best, "candidates": tried})
        }
        "C17" => {
            let mut best: Scen17 = match serde_json::from_value(scenario.clone()) {
                Ok(s) => s,
                Err(_) => return json!({"scenario": scenario, "candidates": 0}),
            };
            let ok = |s: &Scen17, tried: &mut usize| -> bool {
                *tried += 1;
                matches!(exec17(s).0, Some(v) if v.signature() == sig)
            };
            let mut progress = true;
            while progress && tried < budget {
                progress = false;
                let mut i = best.order.len();
                while i > 0 && tried < budget {
                    i -= 1;
                    let mut c = best.clone();
                    c.order.remove(i);
                    if ok(&c, &mut tried) {
                        best = c;
                        progress = true;
                    }
                }
                let mut i = best.schedule.len();
                while i > 0 && tried < budget {
                    i -= 1;
                    let mut c = best.clone();
                    c.schedule.remove(i);
                    if ok(&c, &mut tried) {
                        best = c;
                        progress = true;
                    }
                }
            }
            json!({"scenario": best, "candidates": tried})
        }
        _ => json!({"scenario": scenario, "candidates": 0}),
    }
}

#[cfg(test)]
mod tests {
    use super::*;
    #[test]
    fn all_fail_kinds_fail_with_native_text() {
        let t = dnssector::fn_table();
        let bytes = base_packet();
        let mut texts = std::collections::BTreeSet::new();
        for k in 0..N_FAIL_KINDS {
            let mut err: *const CErr = std::ptr::null();
            let (rc, exp) = unsafe { table_fail(&t, &mut err, k, &bytes) };
            assert_eq!(rc, -1, "kind {} did not fail", k);
            let exp = exp.unwrap_or_else(|| panic!("kind {} has no native text", k));
            let got = unsafe { CStr::from_ptr((t.error_description)(err)) }.to_string_lossy().into_owned();
            assert_eq!(got, exp, "kind {}", k);
            texts.insert(exp);
        }
        assert!(texts.len() >= 17, "only {} distinct texts", texts.len());
    }
}
