//! Minimiser for lane-N scenarios: shrink operations, cursor steps and the packet while the same
//! violation class (property set, clause, operation kind, key) persists.

use crate::codec::*;
use crate::exec::{self, Violation};
use crate::model::*;
use crate::ops::*;

fn run(sc: &Scenario, prop: &str) -> Option<Violation> {
    let mut src = exec::Scripted::new(sc.ops.clone());
    let out = exec::execute(&sc.init, &mut src, false, prop);
    if out.rejected.is_some() {
        return None;
    }
    out.violation
}

fn same_class(v: &Violation, want_sig: &str, prop: &str) -> bool {
    v.signature() == want_sig && (prop.is_empty() || v.has(prop))
}

pub struct Shrunk {
    pub scenario: Scenario,
    pub candidates: usize,
}

pub fn minimise(sc: &Scenario, want_sig: &str, prop: &str, budget: usize) -> Shrunk {
    let mut best = sc.clone();
    let mut tried = 0usize;
    let mut check = |cand: &Scenario, tried: &mut usize| -> bool {
        *tried += 1;
        match run(cand, prop) {
            Some(v) => same_class(&v, want_sig, prop),
            None => false,
        }
    };
    // 0. sanity: the scenario must reproduce
    if !check(&best, &mut tried) {
        return Shrunk {
            scenario: best,
            candidates: tried,
        };
    }
    let mut progress = true;
    while progress && tried < budget {
        progress = false;
        // 1. drop whole operations (last to first keeps earlier context longest)
        let mut i = best.ops.len();
        while i > 0 && tried < budget {
            i -= 1;
            if best.ops.len() <= 1 {
                break;
            }
            let mut c = best.clone();
            c.ops.remove(i);
            if check(&c, &mut tried) {
                best = c;
                progress = true;
            }
        }
        // 2. drop cursor steps inside walks
        for oi in 0..best.ops.len() {
            if let Op::Walk { steps, .. } = &best.ops[oi] {
                let mut si = steps.len();
                while si > 0 && tried < budget {
                    si -= 1;
                    let mut c = best.clone();
                    if let Op::Walk { steps, .. } = &mut c.ops[oi] {
                        if si >= steps.len() {
                            continue;
                        }
                        steps.remove(si);
                    }
                    if check(&c, &mut tried) {
                        best = c;
                        progress = true;
                    }
                }
            }
        }
        // 3. shrink the packet: literal layout, drop records, shorten opaque data
        if let Init::Bytes(b) = &best.init {
            if let Ok(d) = decode(b) {
                let m = d.msg;
                if d.layout.has_pointer && tried < budget {
                    let mut c = best.clone();
                    c.init = Init::Bytes(encode_literal(&m));
                    if check(&c, &mut tried) {
                        best = c;
                        progress = true;
                    }
                }
                let layout_literal = !matches!(&best.init, Init::Bytes(bb) if decode(bb).map(|d| d.layout.has_pointer).unwrap_or(false));
                if layout_literal {
                    let mut m = match &best.init {
                        Init::Bytes(bb) => decode(bb).map(|d| d.msg).unwrap_or(m),
                        _ => m,
                    };
                    for s in 0..3 {
                        let mut k = m.sec[s].len();
                        while k > 0 && tried < budget {
                            k -= 1;
                            let mut m2 = m.clone();
                            m2.sec[s].remove(k);
                            let mut c = best.clone();
                            c.init = Init::Bytes(encode_literal(&m2));
                            if check(&c, &mut tried) {
                                best = c;
                                m = m2;
                                progress = true;
                            }
                        }
                    }
                    // shorten big opaque data and long names
                    for s in 0..3 {
                        for k in 0..m.sec[s].len() {
                            if tried >= budget {
                                break;
                            }
                            let mut m2 = m.clone();
                            let r = &mut m2.sec[s][k];
                            let mut changed = false;
                            if let RData::Opaque(v) = &mut r.rdata {
                                if v.len() > 4 && r.rtype != T_OPT {
                                    v.truncate(2);
                                    changed = true;
                                }
                            }
                            if r.name.0.len() > 2 {
                                r.name.0.drain(0..1);
                                changed = true;
                            }
                            if changed {
                                let mut c = best.clone();
                                c.init = Init::Bytes(encode_literal(&m2));
                                if check(&c, &mut tried) {
                                    best = c;
                                    m = m2;
                                    progress = true;
                                }
                            }
                        }
                    }
                }
            }
        }
    }
    Shrunk {
        scenario: best,
        candidates: tried,
    }
}
