//! Seeded generators: messages (packet shapes), names, records, record text.

use crate::codec::*;
use crate::model::*;
use crate::prng::Rng;

/// Small shared label alphabet so that names share suffixes within and across packets.
pub const LABELS: &[&[u8]] = &[
    b"a", b"b", b"c", b"www", b"mail", b"ns1", b"ns2", b"example", b"Example", b"EXAMPLE", b"com",
    b"COM", b"org", b"net", b"x1", b"_tcp", b"_udp", b"cdn-7", b"zz", b"k", b"io", b"dev",
    b"a-very-long-label-of-forty-two-characters-x", b"0", b"9z",
];

#[derive(Clone, Copy, Debug, PartialEq, Eq)]
pub enum Shape {
    Tiny,
    Typical,
    Many,
    ManySuffixes,
    Big,
    Huge,
    /// small on the wire, large once decompressed: many records naming one long name by pointer
    Inflating,
}

pub const SHAPES: [Shape; 7] = [
    Shape::Tiny,
    Shape::Typical,
    Shape::Many,
    Shape::ManySuffixes,
    Shape::Big,
    Shape::Huge,
    Shape::Inflating,
];

impl Shape {
    pub fn name(&self) -> &'static str {
        match self {
            Shape::Tiny => "tiny",
            Shape::Typical => "typical",
            Shape::Many => "many",
            Shape::ManySuffixes => "many-suffixes",
            Shape::Big => "gt8192",
            Shape::Huge => "near64k",
            Shape::Inflating => "inflating",
        }
    }
}

#[derive(Clone, Copy, Debug, PartialEq, Eq)]
pub enum OptPlace {
    Absent,
    First,
    Middle,
    Last,
}

#[derive(Clone, Debug)]
pub struct PacketCfg {
    pub shape: Shape,
    pub density: usize,
    pub opt: OptPlace,
    pub response: bool,
    /// unique TTL per record (C11 tags)
    pub unique_tags: bool,
    /// restrict names to letter-digit-hyphen-underscore (so they survive text conversion)
    pub max_section: usize,
    /// the question name is written as a compression pointer into the 12-byte header (id low
    /// byte 1, flags 0x8100: offset 1 then reads as the one-label name "\x81.")
    pub header_ptr: bool,
}

pub fn gen_label(rng: &mut Rng) -> Vec<u8> {
    match rng.below(20) {
        0 => {
            // maximal label
            vec![b'm'; 63]
        }
        1 => {
            let n = rng.range(1, 12);
            (0..n)
                .map(|_| *rng.pick(b"abcdefghijklmnopqrstuvwxyzABCXYZ0123456789-_"))
                .collect()
        }
        2 => {
            // printable but unusual characters the parser admits
            let n = rng.range(1, 5);
            (0..n).map(|_| *rng.pick(b"!#$%&*+/:;<=>?@[]^`{|}~ ")).collect()
        }
        3 => {
            // high bytes are admitted by the parser
            let n = rng.range(1, 4);
            (0..n).map(|_| 0x80 + rng.below(0x80) as u8).collect()
        }
        _ => rng.pick(LABELS).to_vec(),
    }
}

pub fn gen_name(rng: &mut Rng) -> Name {
    let n = match rng.below(24) {
        0 => 0,
        1 => return gen_long_name(rng),
        2..=5 => 1,
        6..=12 => 2,
        13..=18 => 3,
        19..=21 => 4,
        _ => rng.range(5, 8),
    };
    let mut labels: Vec<Vec<u8>> = Vec::new();
    let mut len = 1;
    for _ in 0..n {
        let l = gen_label(rng);
        if len + l.len() + 1 > 255 {
            break;
        }
        len += l.len() + 1;
        labels.push(l);
    }
    Name(labels)
}

/// Name whose wire length is exactly `target` (1 <= target <= 255, target != 2 is always reachable).
pub fn gen_name_of_len(rng: &mut Rng, target: usize) -> Name {
    let mut labels = Vec::new();
    let mut left = target.saturating_sub(1);
    while left > 0 {
        let max = left.min(64);
        // a label of l bytes consumes l+1
        let mut take = if max >= 2 { rng.range(2, max) } else { max };
        if left - take == 1 {
            // would leave an impossible remainder of 1
            if take > 2 {
                take -= 1;
            } else {
                take = left;
            }
        }
        if take < 2 {
            break;
        }
        let c = *rng.pick(b"abcdefgXYZ019");
        labels.push(vec![c; take - 1]);
        left -= take;
    }
    Name(labels)
}

pub fn gen_long_name(rng: &mut Rng) -> Name {
    let t = *rng.pick(&[255usize, 255, 254, 253, 250, 200, 128, 130]);
    gen_name_of_len(rng, t)
}

/// Name made only of letter-digit-hyphen-underscore labels of at most 62 bytes, wire length <= 253:
/// the family the text->wire conversion is specified to accept.
pub fn gen_ldh_name(rng: &mut Rng) -> Name {
    let n = match rng.below(12) {
        0 => {
            // long
            let target = rng.range(200, 253);
            let mut labels = Vec::new();
            let mut left = target - 1;
            while left >= 2 {
                let take = left.min(rng.range(2, 63));
                let c = *rng.pick(b"abcxyz019");
                labels.push(vec![c; take - 1]);
                left -= take;
            }
            return Name(labels);
        }
        1..=3 => 1,
        4..=8 => 2,
        _ => rng.range(3, 5),
    };
    let mut labels = Vec::new();
    for _ in 0..n {
        let l: Vec<u8> = match rng.below(6) {
            0 => {
                let k = rng.range(1, 10);
                let mut v: Vec<u8> = vec![*rng.pick(b"abcdefghijklmnopqrstuvwxyzABCXYZ")];
                for _ in 1..k {
                    v.push(*rng.pick(b"abcdefghijklmnopqrstuvwxyzABCXYZ0123456789-"));
                }
                if *v.last().unwrap() == b'-' {
                    v.push(b'e');
                }
                v
            }
            _ => {
                let cands: [&[u8]; 14] = [
                    b"a", b"b", b"www", b"mail", b"ns1", b"ns2", b"example", b"Example", b"com", b"org",
                    b"net", b"x1", b"_tcp", b"cdn-7",
                ];
                rng.pick(&cands).to_vec()
            }
        };
        labels.push(l);
    }
    // the text parser refuses names whose last label is all-numeric (they look like addresses)
    Name(labels)
}

pub fn gen_opaque(rng: &mut Rng, max: usize) -> Vec<u8> {
    let n = match rng.below(10) {
        0 => 0,
        1..=6 => rng.range(1, 24.min(max.max(1))),
        _ => rng.range(0, max),
    };
    let mut v = rng.bytes(n);
    // sprinkle bytes that look like compression pointers / label lengths
    if n >= 2 && rng.chance(1, 3) {
        let i = rng.below(n - 1);
        v[i] = 0xc0;
        v[i + 1] = 0x0c;
    }
    v
}

pub fn gen_rdata_for(rng: &mut Rng, rtype: u16, name_gen: &mut dyn FnMut(&mut Rng) -> Name) -> RData {
    match rtype {
        T_A => {
            let b = gen_addr(rng, 4);
            RData::A([b[0], b[1], b[2], b[3]])
        }
        T_AAAA => {
            let b = gen_addr(rng, 16);
            let mut a = [0u8; 16];
            a.copy_from_slice(&b);
            RData::AAAA(a)
        }
        T_NS | T_CNAME | T_PTR => RData::Name(name_gen(rng)),
        T_MX => RData::MX(rng.below(65536) as u16, name_gen(rng)),
        T_SOA => {
            let b = rng.bytes(20);
            let mut m = [0u8; 20];
            m.copy_from_slice(&b);
            RData::SOA(name_gen(rng), name_gen(rng), m)
        }
        T_DNAME => {
            // any bytes allowed in labels
            let mut n = name_gen(rng);
            if rng.chance(1, 3) && !n.0.is_empty() {
                let old = std::mem::replace(&mut n.0[0], vec![0x00, b'.', b'\\', 0x7f]);
                if n.wire_len() > 255 {
                    n.0[0] = old;
                }
            }
            RData::DNAME(n)
        }
        _ => {
            // now and then a data length whose high byte is not zero
            if rng.chance(1, 40) {
                let n = rng.range(256, 700);
                RData::Opaque(rng.bytes(n))
            } else {
                RData::Opaque(gen_opaque(rng, 64))
            }
        }
    }
}

pub const REC_TYPES: &[u16] = &[
    T_A, T_A, T_A, T_AAAA, T_AAAA, T_NS, T_NS, T_CNAME, T_CNAME, T_PTR, T_MX, T_MX, T_SOA, T_SOA, T_DNAME,
    T_TXT, T_TXT, T_DS, 33, 99, 257, 65280, 0, 255, 250, 46, 47, 35, 65535, 3, 4, 7, 14, 17, 18, 21, 36,
    // single-name types the library treats as opaque (MG, MR), and the neighbours of OPT (41)
    8, 9, 40, 42,
];

/// TTL values with special bit patterns as well as arbitrary ones.
pub fn gen_ttl(rng: &mut Rng) -> u32 {
    match rng.below(6) {
        0 => *rng.pick(&[0u32, 1, 0x7fff_ffff, 0x8000_0000, 0xffff_ffff, 0x0000_8000, 0x0100_0000, 300, 86400]),
        _ => rng.next_u64() as u32,
    }
}

/// Addresses with special values as well as arbitrary ones (n = 4 or 16).
pub fn gen_addr(rng: &mut Rng, n: usize) -> Vec<u8> {
    if rng.chance(1, 5) {
        if n == 4 {
            return rng.pick(&[[0u8, 0, 0, 0], [255, 255, 255, 255], [127, 0, 0, 1], [0, 0, 0, 1], [192, 0, 2, 255]]).to_vec();
        }
        let mut v = vec![0u8; 16];
        match rng.below(4) {
            0 => {}
            1 => v[15] = 1,
            2 => {
                v[10] = 0xff;
                v[11] = 0xff;
                v[12] = 1;
                v[13] = 2;
                v[14] = 3;
                v[15] = 4;
            }
            _ => v = vec![0xff; 16],
        }
        return v;
    }
    rng.bytes(n)
}

pub fn gen_rec(rng: &mut Rng, name_gen: &mut dyn FnMut(&mut Rng) -> Name) -> Rec {
    let rtype = *rng.pick(REC_TYPES);
    Rec {
        name: name_gen(rng),
        rtype,
        class: if rng.chance(1, 10) { *rng.pick(&[3u16, 4, 254, 255, 0, 2, 65535]) } else { 1 },
        ttl: gen_ttl(rng),
        rdata: gen_rdata_for(rng, rtype, name_gen),
    }
}

pub fn gen_opt(rng: &mut Rng) -> Rec {
    let nopts = *rng.pick(&[0usize, 0, 1, 1, 2, 3, 5]);
    let mut rd = Vec::new();
    for _ in 0..nopts {
        let code = *rng.pick(&[3u16, 8, 10, 12, 15, 65001]);
        let l = *rng.pick(&[0usize, 0, 1, 4, 8, 11, 40]);
        rd.extend_from_slice(&code.to_be_bytes());
        rd.extend_from_slice(&(l as u16).to_be_bytes());
        rd.extend(rng.bytes(l));
    }
    Rec {
        name: Name::root(),
        rtype: T_OPT,
        class: *rng.pick(&[512u16, 1232, 4096, 65535, 0]),
        ttl: if rng.chance(1, 2) {
            0x0000_8000
        } else {
            rng.next_u64() as u32
        },
        rdata: RData::Opaque(rd),
    }
}

/// A pool of names sharing suffixes; `distinct_suffix_target` > 32 forces dictionary wrap-around
/// in the library's compressor.
fn name_pool(rng: &mut Rng, shape: Shape) -> (Vec<Name>, bool) {
    let mut pool = Vec::new();
    if (shape == Shape::Many || shape == Shape::ManySuffixes) && rng.chance(1, 4) {
        // chain mode: each name is one label in front of the previous one, so that a dense
        // layout builds pointer chains up to (and, for later names, stopped at) 16 hops
        let mut cur = Name(vec![rng.pick(LABELS).to_vec()]);
        let n = rng.range(14, 22);
        for i in 0..n {
            pool.push(cur.clone());
            let l = format!("h{}", i).into_bytes();
            if cur.wire_len() + l.len() + 1 > 255 {
                break;
            }
            cur.0.insert(0, l);
        }
        return (pool, true);
    }
    let bases = rng.range(1, 3);
    let mut base_names = Vec::new();
    for _ in 0..bases {
        base_names.push(gen_name(rng));
    }
    let n = match shape {
        Shape::Tiny => 2,
        // around the compressor's 32-entry suffix table as well as well beyond it
        Shape::ManySuffixes => *rng.pick(&[48usize, 48, 40, 36, 34, 33, 32, 31, 30, 28]),
        _ => 8,
    };
    for i in 0..n {
        let mut nm = rng.pick(&base_names).clone();
        match rng.below(4) {
            0 => {}
            1 | 2 => {
                let l = if shape == Shape::ManySuffixes {
                    format!("s{}", i).into_bytes()
                } else {
                    gen_label(rng)
                };
                if nm.wire_len() + l.len() + 1 <= 255 {
                    nm.0.insert(0, l);
                }
            }
            _ => {
                nm = gen_name(rng);
            }
        }
        // a differently-cased copy of a name already in the pool: equal to it for rename and
        // compression purposes, different on the wire
        if !pool.is_empty() && rng.chance(1, 8) {
            let mut cv: Name = rng.pick(&pool).clone();
            for l in cv.0.iter_mut() {
                for b in l.iter_mut() {
                    if b.is_ascii_alphabetic() && rng.bool() {
                        *b ^= 0x20;
                    }
                }
            }
            nm = cv;
        }
        pool.push(nm);
    }
    (pool, false)
}

/// Many records whose names are the (long) question name: a few KB on the wire, anything from a
/// few KB to beyond 64 KiB once decompressed (the sizes are aimed at the 8192 and 65535 limits).
fn gen_inflating(rng: &mut Rng, cfg: &PacketCfg) -> Msg {
    let qlen = *rng.pick(&[255usize, 255, 200, 188, 120, 64]);
    let qname = gen_name_of_len(rng, qlen);
    let mut m = Msg {
        id: rng.next_u64() as u16,
        flags: 0x8180 | (rng.next_u64() as u16 & 0x0030),
        q: Some(Question {
            name: qname.clone(),
            qtype: 1,
            qclass: 1,
        }),
        ..Default::default()
    };
    // decompressed size ~ 12 + qlen+4 + n*(qlen+10+rd)
    let target = match rng.below(6) {
        0 => rng.range(7900, 8192),
        1 => rng.range(8193, 8500),
        2 => rng.range(8000, 12000),
        3 => rng.range(64000, 65535),
        4 => rng.range(65536, 80000),
        _ => rng.range(2000, 60000),
    };
    let mut total = 12 + qlen + 4;
    let mut tag = 5000u32;
    while total < target {
        let rtype = *rng.pick(&[T_A, T_A, T_AAAA, T_NS, T_CNAME, T_MX, T_TXT]);
        let mut ng = |_r: &mut Rng| qname.clone();
        let mut r = Rec {
            name: qname.clone(),
            rtype,
            class: 1,
            ttl: {
                tag += 1;
                tag
            },
            rdata: gen_rdata_for(rng, rtype, &mut ng),
        };
        if let RData::Opaque(v) = &mut r.rdata {
            v.truncate(8);
        }
        let w = r.wire_len();
        if total + w > target && total + 11 <= target {
            // finish exactly on the target with an opaque record under the root name
            let pad = target - total - 11;
            r = Rec {
                name: Name::root(),
                rtype: T_TXT,
                class: 1,
                ttl: tag,
                rdata: RData::Opaque(vec![b'p'; pad.min(60000)]),
            };
        }
        total += r.wire_len();
        let s = rng.below(3);
        m.sec[s].push(r);
        if m.sec[0].len() + m.sec[1].len() + m.sec[2].len() > 400 {
            break;
        }
    }
    if cfg.opt != OptPlace::Absent {
        let opt = gen_opt(rng);
        let ar = &mut m.sec[2];
        let pos = match cfg.opt {
            OptPlace::First => 0,
            OptPlace::Last => ar.len(),
            _ => rng.below(ar.len() + 1),
        };
        ar.insert(pos, opt);
    }
    m
}

/// A name that starts right at the edge of what a 14-bit compression pointer can address
/// (offset 16382, 16383 or 16384), used again by later records.
fn gen_pointer_limit(rng: &mut Rng, cfg: &PacketCfg) -> Msg {
    let qname = gen_ldh_name(rng);
    let mut m = Msg {
        id: rng.next_u64() as u16,
        flags: 0x8180,
        q: Some(Question {
            name: if qname.0.is_empty() { Name::from_labels(&[b"q", b"test"]) } else { qname },
            qtype: 1,
            qclass: 1,
        }),
        ..Default::default()
    };
    let edge = *rng.pick(&[16382usize, 16383, 16383, 16384]);
    let qlen = m.q.as_ref().unwrap().name.wire_len();
    // header + question + filler record (root owner, opaque rdata) must end exactly at `edge`
    let used = 12 + qlen + 4 + 1 + 10;
    let filler = edge - used;
    let sec = rng.below(3);
    m.sec[sec].push(Rec {
        name: Name::root(),
        rtype: T_TXT,
        class: 1,
        ttl: 1,
        rdata: RData::Opaque(vec![b'f'; filler]),
    });
    let edge_name = Name::from_labels(&[b"edge", b"limit", b"example"]);
    let n_after = rng.range(2, 5);
    for i in 0..n_after {
        let rtype = *rng.pick(&[T_A, T_A, T_CNAME, T_NS, T_MX]);
        let mut ng = |_r: &mut Rng| edge_name.clone();
        let r = Rec {
            name: edge_name.clone(),
            rtype,
            class: 1,
            ttl: 100 + i as u32,
            rdata: gen_rdata_for(rng, rtype, &mut ng),
        };
        // later records go into the same or a later section so that wire order is kept
        let s = rng.range(sec, 2);
        m.sec[s].push(r);
    }
    if cfg.opt == OptPlace::Last {
        m.sec[2].push(gen_opt(rng));
    }
    m
}

pub fn gen_msg(rng: &mut Rng, cfg: &PacketCfg) -> Msg {
    if cfg.shape == Shape::Inflating {
        return gen_inflating(rng, cfg);
    }
    if cfg.shape == Shape::Big && cfg.density == 1000 && rng.chance(1, 2) {
        return gen_pointer_limit(rng, cfg);
    }
    let (pool, chain) = name_pool(rng, cfg.shape);
    let mut next_in_chain = 0usize;
    let mut name_gen = |r: &mut Rng| -> Name {
        if chain {
            // hand the nested names out in order, so that each points at its predecessor
            let n = pool[next_in_chain % pool.len()].clone();
            next_in_chain += 1;
            return n;
        }
        if r.chance(4, 5) {
            r.pick(&pool).clone()
        } else {
            gen_name(r)
        }
    };
    let mut flags: u16 = (rng.next_u64() as u16) & !0x8000;
    if cfg.response {
        flags |= 0x8000;
    }
    let mut m = Msg {
        id: rng.next_u64() as u16,
        flags,
        q: Some(Question {
            // the root name now and then (the priming query ". NS")
            name: if rng.chance(1, 30) { Name::root() } else { name_gen(rng) },
            // including codes that mean something special elsewhere (OPT, DNAME, CNAME, 0, 65535)
            qtype: *rng.pick(&[1u16, 1, 28, 2, 15, 6, 255, 12, 16, 41, 41, 39, 5, 0, 65535, 250]),
            qclass: 1,
        }),
        ..Default::default()
    };
    let maxs = cfg.max_section;
    let per = |rng: &mut Rng| -> usize {
        match cfg.shape {
            Shape::Tiny => rng.below(2),
            Shape::Typical => rng.below(maxs.min(5) + 1),
            Shape::Many | Shape::ManySuffixes => rng.range(0, maxs),
            Shape::Big | Shape::Huge | Shape::Inflating => rng.below(maxs.min(4) + 1),
        }
    };
    let mut tag = 1000u32;
    for s in 0..3 {
        if s < 2 && !cfg.response {
            continue;
        }
        let n = per(rng);
        for _ in 0..n {
            let mut r = gen_rec(rng, &mut name_gen);
            if cfg.unique_tags {
                tag += 1;
                r.ttl = tag;
            }
            m.sec[s].push(r);
        }
    }
    // crowd: one section with more than 255 records, so that its count needs both header bytes
    // and a deletion or insertion crosses the 255/256 boundary
    if cfg.shape == Shape::Many && rng.chance(1, 36) {
        let s = if cfg.response { rng.below(3) } else { 2 };
        let want = rng.range(254, 258);
        while m.sec[s].len() < want {
            let rtype = *rng.pick(&[T_A, T_A, T_TXT, T_AAAA]);
            let mut r = Rec {
                name: name_gen(rng),
                rtype,
                class: 1,
                ttl: gen_ttl(rng),
                rdata: if rtype == T_TXT {
                    RData::Opaque(vec![1, b'x'])
                } else {
                    gen_rdata_for(rng, rtype, &mut name_gen)
                },
            };
            if cfg.unique_tags {
                tag += 1;
                r.ttl = tag;
            }
            m.sec[s].push(r);
        }
    }
    // bulk for the size classes: opaque records in answer (response) or additional
    let bulk_target = match cfg.shape {
        Shape::Big => Some(rng.range(8000, 12000)),
        Shape::Huge => Some(if rng.bool() { rng.range(65100, 65400) } else { rng.range(60000, 65000) }),
        _ => None,
    };
    if let Some(target) = bulk_target {
        let mut total: usize = 12 + m.q.as_ref().unwrap().name.wire_len() + 4;
        for s in 0..3 {
            total += m.sec[s].iter().map(|r| r.wire_len()).sum::<usize>();
        }
        while total < target {
            let chunk = (target - total).min(rng.range(500, 20000));
            let r = Rec {
                name: name_gen(rng),
                rtype: *rng.pick(&[T_TXT, 99, 65280]),
                class: 1,
                ttl: {
                    tag += 1;
                    tag
                },
                rdata: RData::Opaque(rng.bytes(chunk)),
            };
            total += r.wire_len();
            let s = if cfg.response { rng.below(3) } else { 2 };
            let pos = rng.below(m.sec[s].len() + 1);
            m.sec[s].insert(pos, r);
        }
    }
    if cfg.header_ptr {
        m.id = (m.id & 0xff00) | 0x0001;
        m.flags = 0x8100;
        let hn = Name(vec![vec![0x81]]);
        if let Some(q) = m.q.as_mut() {
            q.name = hn.clone();
        }
        // a record or two under the same name, so that they too can point into the header
        for s in 0..3 {
            if let Some(r) = m.sec[s].first_mut() {
                if r.rtype != T_OPT && rng.bool() {
                    r.name = hn.clone();
                }
            }
        }
    }
    // OPT placement
    if cfg.opt != OptPlace::Absent {
        let opt = gen_opt(rng);
        let ar = &mut m.sec[2];
        let pos = match cfg.opt {
            OptPlace::First => 0,
            OptPlace::Last => ar.len(),
            OptPlace::Middle => {
                if ar.len() < 2 {
                    // make room for a real middle
                    while ar.len() < 2 {
                        let mut r = gen_rec(rng, &mut name_gen);
                        tag += 1;
                        if cfg.unique_tags {
                            r.ttl = tag;
                        }
                        ar.push(r);
                    }
                }
                rng.range(1, ar.len() - 1)
            }
            OptPlace::Absent => unreachable!(),
        };
        ar.insert(pos, opt);
    }
    m
}

pub fn gen_packet_cfg(rng: &mut Rng, shape_weights: &[u32; 7]) -> PacketCfg {
    let shape = SHAPES[rng.weighted(shape_weights)];
    let mut cfg = gen_packet_cfg_inner(rng, shape);
    if matches!(shape, Shape::Tiny | Shape::Typical | Shape::Many) && rng.chance(1, 40) {
        cfg.header_ptr = true;
        cfg.response = true;
    }
    cfg
}

fn gen_packet_cfg_inner(rng: &mut Rng, shape: Shape) -> PacketCfg {
    PacketCfg {
        shape,
        density: if shape == Shape::Inflating {
            1000
        } else {
            *rng.pick(&[0usize, 0, 300, 700, 1000, 1000])
        },
        opt: *rng.pick(&[
            OptPlace::Absent,
            OptPlace::Absent,
            OptPlace::Last,
            OptPlace::Last,
            OptPlace::Last,
            OptPlace::First,
            OptPlace::Middle,
        ]),
        response: rng.chance(5, 6),
        unique_tags: false,
        max_section: match shape {
            Shape::Many | Shape::ManySuffixes => 12,
            _ => 5,
        },
        header_ptr: false,
    }
}

/// Encodes a message with the configured layout. Falls back to the literal layout when the
/// compressed one would overflow 65535 bytes.
pub fn encode_with(m: &Msg, cfg: &PacketCfg, layout_seed: u64) -> Vec<u8> {
    if cfg.header_ptr {
        let mut e = Encoder::seeded(layout_seed, 1000);
        e.add_site(1, vec![vec![0x81]]);
        e.put_msg(m);
        return e.buf;
    }
    if cfg.density == 0 {
        encode_literal(m)
    } else {
        encode_seeded(m, layout_seed, cfg.density).0
    }
}

// ---------------------------------------------------------------------------------------------
// Record text (presentation format accepted by the library's text parser)
// ---------------------------------------------------------------------------------------------

fn name_text(n: &Name) -> String {
    let mut s = String::from_utf8_lossy(&n.text()).into_owned();
    if !s.ends_with('.') {
        s.push('.');
    }
    s
}

/// Generates valid record text for one of the nine supported types.
pub fn gen_rr_text(rng: &mut Rng) -> String {
    let owner = {
        let mut n = gen_ldh_name(rng);
        if n.0.is_empty() {
            n = Name::from_labels(&[b"example", b"com"]);
        }
        n
    };
    let ttl = *rng.pick(&[0u32, 1, 60, 3600, 86400, u32::MAX]);
    let ws = |rng: &mut Rng| -> &'static str { *rng.pick(&[" ", " ", "\t", "  ", " \t "]) };
    let class = *rng.pick(&["IN", "IN", "in", "In"]);
    let host = |rng: &mut Rng| -> String {
        if rng.chance(1, 10) {
            // the root name is a legal target (e.g. "SOA . . (...)", "MX 0 .")
            return ".".to_string();
        }
        let mut n = gen_ldh_name(rng);
        if n.0.is_empty() {
            n = Name::from_labels(&[b"ns1", b"example", b"net"]);
        }
        name_text(&n)
    };
    let (ty, rdata): (&str, String) = match rng.below(9) {
        0 => (
            *rng.pick(&["A", "a"]),
            format!("{}.{}.{}.{}", rng.below(256), rng.below(256), rng.below(256), rng.below(256)),
        ),
        1 => (
            "AAAA",
            rng.pick(&["::1", "2001:db8::1", "fe80::1:2:3:4", "2001:db8:0:1:2:3:4:5", "::"])
                .to_string(),
        ),
        2 => (*rng.pick(&["NS", "ns"]), host(rng)),
        3 => ("CNAME", host(rng)),
        4 => ("PTR", host(rng)),
        5 => {
            let mut n = *rng.pick(&[1usize, 5, 40, 255, 256, 300, 254, 510, 765]);
            // now and then a long string written entirely in decimal escapes: more than 8192
            // characters of text for little more than 2 KB on the wire
            let all_escaped = rng.chance(1, 16);
            if all_escaped {
                n = *rng.pick(&[2040usize, 2049, 2100, 2300]);
            }
            let mut s = String::from("\"");
            for _ in 0..n {
                match if all_escaped { 0 } else { rng.below(12) } {
                    0 => s.push_str(&format!("\\{:03}", rng.below(256))),
                    _ => s.push(*rng.pick(b"abcdefghijklmnopqrstuvwxyz0123456789 =;-_") as char),
                }
            }
            s.push('"');
            ("TXT", s)
        }
        6 => ("MX", format!("{}{}{}", rng.pick(&[0u32, 10, 65535]), ws(rng), host(rng))),
        7 => (
            "SOA",
            format!(
                "{} {} ( {} {} {} {} {} )",
                host(rng),
                host(rng),
                // serial: 0 and other special values as well as arbitrary ones
                gen_ttl(rng),
                rng.below(100000),
                rng.below(100000),
                rng.below(1000000),
                rng.below(100000)
            ),
        ),
        _ => {
            let n = *rng.pick(&[1usize, 2, 20, 32]);
            let d: String = (0..n).map(|_| format!("{:02x}", rng.below(256))).collect();
            ("DS", format!("{} {} {} {}", rng.below(65536), rng.below(256), rng.below(256), d))
        }
    };
    format!(
        "{}{}{}{}{}{}{}{}{}",
        name_text(&owner),
        ws(rng),
        ttl,
        ws(rng),
        class,
        ws(rng),
        ty,
        ws(rng),
        rdata
    )
}

/// Damages valid record text with one seeded edit (the `bad_text` fault kind). Edits are chosen
/// among those that do not crash the unclaimed text parser on the unchanged tree: see DESIGN.md.
pub fn damage_rr_text(rng: &mut Rng, text: &str) -> String {
    let toks: Vec<&str> = text.split_whitespace().collect();
    match rng.below(8) {
        7 => {
            // a DS digest with an odd number of hex digits, or other records given a stray digit
            if text.contains(" DS ") || text.contains("\tDS") {
                format!("{}a", text.trim_end())
            } else {
                "odd.example. 60 IN DS 12345 8 2 abc".to_string()
            }
        }
        0 => {
            // drop a field
            let k = rng.below(toks.len());
            let mut t = toks.clone();
            t.remove(k);
            t.join(" ")
        }
        1 => {
            // out-of-range TTL
            let mut t: Vec<String> = toks.iter().map(|s| s.to_string()).collect();
            if t.len() > 1 {
                t[1] = "4294967296".into();
            }
            t.join(" ")
        }
        2 => {
            // unknown type
            let mut t: Vec<String> = toks.iter().map(|s| s.to_string()).collect();
            if t.len() > 3 {
                t[3] = "BOGUS".into();
            }
            t.join(" ")
        }
        3 => {
            // unbalanced quote
            format!("{} \"", text.replace('"', ""))
        }
        4 => {
            // wrong class
            let mut t: Vec<String> = toks.iter().map(|s| s.to_string()).collect();
            if t.len() > 2 {
                t[2] = "CH".into();
            }
            t.join(" ")
        }
        5 => String::new(),
        _ => {
            // surplus field
            format!("{} extra", text)
        }
    }
}
