//! Lane N executor: runs a history of API operations against the real library, with the
//! reference model and the C08/C09/C10/C11 oracles evaluated after every step.

use crate::battery::*;
use crate::codec::*;
use crate::model::*;
use crate::ops::*;
use crate::prng::Fnv;
use dnssector::synth::r#gen as dgen;
use dnssector::*;
use std::collections::{BTreeMap, BTreeSet};
use std::net::{IpAddr, Ipv4Addr, Ipv6Addr};

pub const MAX_UNCOMPRESSED: usize = 8192;

#[derive(Clone, Debug)]
pub struct Violation {
    pub props: Vec<&'static str>,
    pub clause: String,
    pub op: String,
    pub key: String,
    pub detail: String,
    pub step: usize,
}

impl Violation {
    pub fn signature(&self) -> String {
        format!("{}|{}|{}", self.clause, self.op, self.key)
    }
    pub fn has(&self, prop: &str) -> bool {
        self.props.iter().any(|p| *p == prop)
    }
}

pub type Stats = BTreeMap<String, u64>;

pub fn bump(stats: &mut Stats, k: &str) {
    *stats.entry(k.to_string()).or_insert(0) += 1;
}

/// What the generator may look at when choosing the next packet-level operation.
pub struct View<'a> {
    pub model: &'a Msg,
    pub layout: &'a Layout,
    pub len: usize,
    pub maybe_compressed: bool,
    pub has_pointer: bool,
    pub step: usize,
}

/// What the generator may look at when choosing the next cursor operation.
pub struct CurView<'a> {
    pub kind: u8,
    /// index of the designated record in its section (None: tombstone)
    pub idx: Option<usize>,
    pub rec: Option<&'a Rec>,
    pub uid: Option<u32>,
    /// how many times this record has been yielded in this walk (including now)
    pub visits: u32,
    pub yields: usize,
    pub section_len: usize,
    pub model: &'a Msg,
    pub len: usize,
    pub maybe_compressed: bool,
}

pub trait Source {
    fn next_op(&mut self, v: &View) -> Option<Op>;
    /// Called once per cursor step of the walk most recently returned by `next_op`.
    fn next_cur(&mut self, v: &CurView) -> Option<CurOp>;
}

pub struct Scripted {
    ops: Vec<Op>,
    i: usize,
    steps: Vec<CurOp>,
    j: usize,
}

impl Scripted {
    pub fn new(ops: Vec<Op>) -> Self {
        Scripted {
            ops,
            i: 0,
            steps: Vec::new(),
            j: 0,
        }
    }
}

impl Source for Scripted {
    fn next_op(&mut self, _v: &View) -> Option<Op> {
        let op = self.ops.get(self.i)?.clone();
        self.i += 1;
        if let Op::Walk { steps, .. } = &op {
            self.steps = steps.clone();
            self.j = 0;
        }
        Some(op)
    }
    fn next_cur(&mut self, _v: &CurView) -> Option<CurOp> {
        let s = self.steps.get(self.j)?.clone();
        self.j += 1;
        Some(s)
    }
}

#[derive(Debug)]
pub struct Outcome {
    pub executed: Scenario,
    pub violation: Option<Violation>,
    pub log_hash: u64,
    pub stats: Stats,
    /// the initial packet was not usable (generator self-check failed); nothing was run
    pub rejected: Option<String>,
    pub steps: usize,
    /// op-kind sequence hash (distinctness measure)
    pub shape_hash: u64,
    pub state_changes: usize,
}

enum Cur<'a> {
    Q(QuestionIterator<'a>),
    R(ResponseIterator<'a>),
    E(EdnsIterator<'a>),
}

impl<'a> Cur<'a> {
    fn offset(&self) -> Option<usize> {
        match self {
            Cur::Q(i) => i.offset(),
            Cur::R(i) => i.offset(),
            Cur::E(i) => i.offset(),
        }
    }
    fn offset_next(&self) -> usize {
        match self {
            Cur::Q(i) => i.offset_next(),
            Cur::R(i) => i.offset_next(),
            Cur::E(i) => i.offset_next(),
        }
    }
    fn pp(&self) -> &ParsedPacket {
        match self {
            Cur::Q(i) => i.parsed_packet(),
            Cur::R(i) => i.parsed_packet(),
            Cur::E(i) => i.parsed_packet(),
        }
    }
    fn next(self, including_opt: bool) -> Option<Cur<'a>> {
        match self {
            Cur::Q(i) => i.next().map(Cur::Q),
            Cur::R(i) => {
                if including_opt {
                    i.next_including_opt().map(Cur::R)
                } else {
                    i.next().map(Cur::R)
                }
            }
            Cur::E(i) => i.next().map(Cur::E),
        }
    }
    fn uncompress(&mut self) -> Result<(), String> {
        match self {
            Cur::Q(i) => i.uncompress(),
            Cur::R(i) => i.uncompress(),
            Cur::E(i) => i.uncompress(),
        }
        .map_err(|e| e.to_string())
    }
}

fn type_from_u16(t: u16) -> Option<Type> {
    Some(match t {
        1 => Type::A,
        2 => Type::NS,
        5 => Type::CNAME,
        6 => Type::SOA,
        12 => Type::PTR,
        15 => Type::MX,
        16 => Type::TXT,
        28 => Type::AAAA,
        33 => Type::SRV,
        39 => Type::DNAME,
        41 => Type::OPT,
        43 => Type::DS,
        99 => Type::SPF,
        255 => Type::ANY,
        257 => Type::CAA,
        32769 => Type::DLV,
        _ => return None,
    })
}

pub const INSERTABLE_TYPES: &[u16] = &[1, 2, 5, 6, 12, 15, 16, 28, 33, 39, 43, 99, 257, 32769];

/// Parser-compatible validity of a raw name handed to set_raw_name: pointer-free, labels <= 63,
/// total <= 255, no control characters / dots / backslashes. Returns the name when valid.
pub fn valid_raw_name(b: &[u8]) -> Option<Name> {
    let n = Name::from_wire(b)?;
    if n.wire_len() > 255 {
        return None;
    }
    for l in &n.0 {
        if l.iter().any(|&c| c < 0x20 || c == 0x7f || c == b'.' || c == b'\\') {
            return None;
        }
    }
    Some(n)
}

struct OpInfo {
    /// e.g. "set_raw_name@answer"
    name: String,
    /// one of the five specified mutators (C09)
    mutator: bool,
    /// model after the operation, when the harness can state it (specified mutators on legal
    /// arguments); None: context operation, the model is resynchronised from the bytes
    expected: Option<Msg>,
    is_insert: bool,
    /// injected fault kind, if this operation was generated as one
    fault: bool,
    /// extra signature tags (state predicates)
    tags: String,
    /// further properties every verdict on this operation concerns (deletions: C11)
    extra: &'static [&'static str],
}

pub struct Exec {
    pub model: Msg,
    pub dec: Decoded,
    pub uids: [Vec<u32>; 4],
    next_uid: u32,
    pub step: usize,
    log: Fnv,
    pub stats: Stats,
    shape: Fnv,
    pub state_changes: usize,
    pub verbose: bool,
    pub trace: Vec<String>,
    /// property the current check decides ("" = stop at any violation). Violations that do not
    /// concern it and leave the history usable are counted and the history continues, so that
    /// their consequences for the target property are still observed.
    pub target: String,
}

enum Res {
    Ok,
    Err(String),
}

impl Exec {
    fn viol(
        &self,
        props: &[&'static str],
        clause: &str,
        op: &str,
        key: impl Into<String>,
        detail: impl Into<String>,
    ) -> Violation {
        Violation {
            props: props.to_vec(),
            clause: clause.to_string(),
            op: op.to_string(),
            key: key.into(),
            detail: detail.into(),
            step: self.step,
        }
    }

    /// A violation that leaves the history usable: fatal only if it concerns the target property.
    fn soft(&mut self, v: Violation) -> Result<(), Violation> {
        if self.target.is_empty() || v.has(&self.target) {
            Err(v)
        } else {
            bump(&mut self.stats, &format!("other_property_violation_passed_over:{}", v.clause));
            Ok(())
        }
    }

    fn logev(&mut self, s: &str) {
        self.log.write_str(s);
        if self.verbose {
            self.trace.push(format!("[{}] {}", self.step, s));
        }
    }

    fn assign_uids(&mut self) {
        for s in 0..4 {
            let n = self.model.count(s);
            self.uids[s].clear();
            for _ in 0..n {
                self.next_uid += 1;
                self.uids[s].push(self.next_uid);
            }
        }
    }

    fn resync_uids(&mut self) {
        for s in 0..4 {
            let n = self.model.count(s);
            if self.uids[s].len() != n {
                self.uids[s].clear();
                for _ in 0..n {
                    self.next_uid += 1;
                    self.uids[s].push(self.next_uid);
                }
            }
        }
    }

    /// Evaluates the oracles after an operation returned (Ok or Err).
    fn check_after(&mut self, pp: &ParsedPacket, info: &OpInfo, res: &Res) -> Result<(), Violation> {
        let r = self.check_after_inner(pp, info, res);
        r
    }

    /// `soft`, with the operation's extra properties added to the verdict first.
    fn soft_x(&mut self, mut v: Violation, info: &OpInfo) -> Result<(), Violation> {
        for p in info.extra {
            if !v.has(p) {
                v.props.push(p);
            }
        }
        self.soft(v)
    }

    fn check_after_inner(&mut self, pp: &ParsedPacket, info: &OpInfo, res: &Res) -> Result<(), Violation> {
        let ok = matches!(res, Res::Ok);
        let after_props: &[&'static str] = if ok {
            if info.mutator {
                &["C08", "C09"]
            } else {
                &["C08"]
            }
        } else {
            &["C10"]
        };
        let view_props: &[&'static str] = if ok { &["C08"] } else { &["C10"] };
        let what = if ok { "successful" } else { "failed" };
        let bytes: &Vec<u8> = match &pp.packet {
            Some(b) => b,
            None => {
                return Err(self.viol(
                    after_props,
                    "object-lost-its-bytes",
                    &info.name,
                    if ok { "after-ok" } else { "after-err" },
                    format!(
                        "after a {} {} the packet object holds no bytes (packet == None){}",
                        what,
                        info.name,
                        match res {
                            Res::Err(e) => format!("; error was: {}", e),
                            _ => String::new(),
                        }
                    ),
                ))
            }
        };
        let dec = match decode(bytes) {
            Ok(d) => d,
            Err(e) => {
                return Err(self.viol(
                    after_props,
                    "bytes-not-wellformed",
                    &info.name,
                    format!("{}{}", if ok { "after-ok" } else { "after-err" }, info.tags),
                    format!(
                        "after a {} {} the packet bytes are not a well-formed message: {} (len {}){}",
                        what,
                        info.name,
                        e.0,
                        bytes.len(),
                        match res {
                            Res::Err(e) => format!("; the operation's error was: {}", e),
                            _ => String::new(),
                        }
                    ),
                ))
            }
        };
        match res {
            Res::Ok => {
                if let Some(exp) = &info.expected {
                    if dec.msg != *exp {
                        let d = exp.diff(&dec.msg, false).unwrap_or_default();
                        let v = self.viol(
                            &["C09"],
                            "effect-mismatch",
                            &info.name,
                            info.tags.clone(),
                            format!(
                                "{} returned Ok but the decoded message is not the stated effect (expected vs actual): {}",
                                info.name, d
                            ),
                        );
                        self.soft_x(v, info)?;
                    }
                }
                if dec.msg != self.model || info.mutator {
                    self.state_changes += 1;
                }
                self.model = dec.msg.clone();
                if info.mutator && (0..3).any(|s| self.model.sec[s].len() >= 255) {
                    bump(&mut self.stats, "probe:mutation_with_section_of_255_or_more");
                }
                if info.is_insert && bytes.len() > MAX_UNCOMPRESSED {
                    return Err(self.viol(
                        &["C10"],
                        "size-limit",
                        &info.name,
                        "ok-but-larger-than-8192",
                        format!(
                            "{} returned Ok and left a packet of {} bytes (> 8192)",
                            info.name,
                            bytes.len()
                        ),
                    ));
                }
            }
            Res::Err(e) => {
                if dec.msg != self.model {
                    let d = self.model.diff(&dec.msg, false).unwrap_or_default();
                    return Err(self.viol(
                        &["C10"],
                        "failed-op-changed-message",
                        &info.name,
                        info.tags.clone(),
                        format!(
                            "{} returned Err({}) but the message changed (before vs after): {}",
                            info.name, e, d
                        ),
                    ));
                }
            }
        }
        // acceptance by the real parser
        let parsed = guarded(|| DNSSector::new(bytes.clone()).and_then(|d| d.parse()));
        let fresh = match parsed {
            Ok(Ok(p)) => p,
            Ok(Err(e)) => {
                if dec.policy.is_empty() {
                    return Err(self.viol(
                        view_props,
                        "bytes-rejected-by-parser",
                        &info.name,
                        format!("{}{}", if ok { "after-ok" } else { "after-err" }, info.tags),
                        format!(
                            "after a {} {} the parser rejects the packet's bytes: {}",
                            what, info.name, e
                        ),
                    ));
                }
                bump(&mut self.stats, "steps_in_policy_only_rejected_state");
                pp_from_layout(bytes.clone(), &dec.layout)
            }
            Err(m) => {
                return Err(self.viol(
                    view_props,
                    "bytes-rejected-by-parser",
                    &info.name,
                    "parser-panicked",
                    format!("after {} the parser panicked on the packet's bytes: {}", info.name, m),
                ));
            }
        };
        let o = observe(pp);
        let e = observe(&fresh);
        if let Some(d) = first_diff(&o, &e) {
            let key = first_diff_key(&o, &e);
            // When what differs is *content* seen through the object (records, EDNS options,
            // header fields) after a specified mutator, the mutation also did not have exactly
            // its stated effect as far as a user of the object can tell (C09).
            let mut props: Vec<&'static str> = view_props.to_vec();
            if ok && info.mutator && content_differs(&o, &e) {
                props.push("C09");
            }
            let v = self.viol(
                &props,
                "view-mismatch",
                &info.name,
                format!("{}{}", key, info.tags),
                format!("after a {} {}: {}", what, info.name, d),
            );
            self.soft_x(v, info)?;
        }
        if !pp.maybe_compressed && dec.layout.has_pointer {
            let v = self.viol(
                view_props,
                "pointer-flag-unsound",
                &info.name,
                info.tags.clone(),
                format!(
                    "after a {} {} the object claims its bytes are pointer-free but they contain a compression pointer",
                    what, info.name
                ),
            );
            self.soft_x(v, info)?;
        }
        // event log
        let mut h = Fnv::new();
        h.write(bytes);
        let line = format!(
            "{} -> {} len={} bytes={:016x}",
            info.name,
            match res {
                Res::Ok => "ok".to_string(),
                Res::Err(e) => format!("err({})", e),
            },
            bytes.len(),
            h.finish()
        );
        self.logev(&line);
        self.dec = dec;
        self.resync_uids();
        Ok(())
    }

    fn view<'a>(&'a self, pp: &ParsedPacket) -> View<'a> {
        View {
            model: &self.model,
            layout: &self.dec.layout,
            len: pp.packet.as_ref().map(|p| p.len()).unwrap_or(0),
            maybe_compressed: pp.maybe_compressed,
            has_pointer: self.dec.layout.has_pointer,
            step: self.step,
        }
    }

    fn state_tags(&self, pp: &ParsedPacket) -> String {
        let mut t = String::new();
        if pp.maybe_compressed && self.dec.layout.has_pointer {
            t.push_str("+compressed");
        }
        t
    }

    // -----------------------------------------------------------------------------------------
    // packet-level operations
    // -----------------------------------------------------------------------------------------

    fn run_packet_op(&mut self, pp: &mut ParsedPacket, op: &Op) -> Result<bool, Violation> {
        let tags = self.state_tags(pp);
        let ctx = |name: &str| OpInfo {
            name: name.to_string(),
            mutator: false,
            expected: None,
            is_insert: false,
            fault: false,
            tags: String::new(),
            extra: &[],
};
        match op {
            Op::SetTid(v) => {
                let r = guarded(|| pp.set_tid(*v));
                self.finish_ctx(pp, ctx("set_tid"), r.map(|_| Res::Ok))
            }
            Op::SetFlags(v) => {
                let r = guarded(|| pp.set_flags(*v));
                self.finish_ctx(pp, ctx("set_flags"), r.map(|_| Res::Ok))
            }
            Op::SetRcode(v) => {
                let r = guarded(|| pp.set_rcode(*v));
                self.finish_ctx(pp, ctx("set_rcode"), r.map(|_| Res::Ok))
            }
            Op::SetOpcode(v) => {
                let r = guarded(|| pp.set_opcode(*v));
                self.finish_ctx(pp, ctx("set_opcode"), r.map(|_| Res::Ok))
            }
            Op::SetResponse(v) => {
                let r = guarded(|| pp.set_response(*v));
                self.finish_ctx(pp, ctx("set_response"), r.map(|_| Res::Ok))
            }
            Op::Recompute => {
                let r = guarded(|| pp.recompute());
                let mut info = ctx("recompute");
                info.tags = tags;
                self.finish_ctx(pp, info, r.map(|x| to_res(x)))
            }
            Op::Poke(k) => {
                let r = guarded(|| match k {
                    0 => {
                        pp.question();
                    }
                    1 => {
                        pp.question_raw0();
                    }
                    2 => {
                        pp.question_raw();
                    }
                    _ => {
                        pp.qtype_qclass();
                    }
                });
                self.finish_ctx(pp, ctx("poke_question_cache"), r.map(|_| Res::Ok))
            }
            Op::Rename {
                target,
                source,
                suffix,
            } => {
                let r = guarded(|| pp.rename_with_raw_names(target, source, *suffix));
                let mut info = ctx("rename");
                info.tags = tags;
                self.finish_ctx(pp, info, r.map(|x| to_res(x)))
            }
            Op::InsertRR {
                section,
                name_text,
                rtype,
                ttl,
                rdata,
                class,
            } => {
                let ty = match type_from_u16(*rtype) {
                    Some(t) => t,
                    None => return Ok(false),
                };
                if *section < 1 || *section > 3 {
                    return Ok(false);
                }
                let hdr = dgen::RRHeader {
                    name: name_text.as_bytes().to_vec(),
                    ttl: *ttl,
                    class: match *class {
                        3 => Class::CH,
                        4 => Class::HS,
                        254 => Class::NONE,
                        255 => Class::ANY,
                        _ => Class::IN,
                    },
                    rr_type: ty,
                };
                let rr = match guarded(|| dgen::RR::new(hdr, rdata)) {
                    Ok(Ok(rr)) => rr,
                    Ok(Err(_)) => {
                        bump(&mut self.stats, "rr_new_refused");
                        return Ok(false);
                    }
                    Err(_) => {
                        bump(&mut self.stats, "unclaimed_panic_in_RR_new");
                        return Ok(false);
                    }
                };
                if *rtype == T_OPT && (self.model.opt_index().is_some() || *section != 3 || name_text != ".") {
                    bump(&mut self.stats, "probe:irregular_opt_insertion");
                }
                let r = self.do_insert(pp, *section, rr, "insert_rr", false);
                if *rtype == T_OPT {
                    // state predicate for signatures: the inserted record is an OPT record
                    return r.map_err(|mut v| {
                        v.key.push_str("+inserts-OPT");
                        v
                    });
                }
                r
            }
            Op::InsertQuestion { name_text, qtype } => {
                let ty = match type_from_u16(*qtype) {
                    Some(t) => t,
                    None => return Ok(false),
                };
                let rr = match guarded(|| dgen::RR::new_question(name_text.as_bytes(), ty, Class::IN)) {
                    Ok(Ok(rr)) => rr,
                    _ => {
                        bump(&mut self.stats, "rr_new_refused");
                        return Ok(false);
                    }
                };
                self.do_insert(pp, SEC_Q, rr, "insert_rr", true)
            }
            Op::InsertText { section, text } => {
                if *section > 3 {
                    return Ok(false);
                }
                // The text parser is a pure function (C13, unclaimed): evaluate it first, outside
                // the packet, so that its own panics are not charged to the mutation properties.
                let pre = guarded(|| dgen::RR::from_string(text));
                let rr = match pre {
                    Err(_) => {
                        bump(&mut self.stats, "unclaimed_panic_in_text_parser");
                        return Ok(false);
                    }
                    Ok(r) => r.ok(),
                };
                self.do_insert_text(pp, *section, text, rr)
            }
            Op::Walk { .. } => unreachable!(),
        }
    }

    fn finish_ctx(
        &mut self,
        pp: &ParsedPacket,
        info: OpInfo,
        r: Result<Res, String>,
    ) -> Result<bool, Violation> {
        match r {
            Err(panic) => {
                // semantics of context operations belong to unclaimed properties
                bump(&mut self.stats, &format!("ended_by_unclaimed_panic:{}", info.name));
                self.logev(&format!("{} -> unclaimed panic {}", info.name, panic));
                Err(self.viol(&[], "unclaimed-panic", &info.name, first_words(&panic), panic))
            }
            Ok(res) => {
                self.check_after(pp, &info, &res)?;
                Ok(true)
            }
        }
    }

    fn section_enum(s: usize) -> Section {
        match s {
            0 => Section::Question,
            1 => Section::Answer,
            2 => Section::NameServers,
            _ => Section::Additional,
        }
    }

    /// Expected model after appending the record whose stand-alone wire form is `rr_bytes`.
    fn expected_after_insert(&self, section: usize, rr_bytes: &[u8], question_form: bool) -> Option<Msg> {
        let mut m = self.model.clone();
        if question_form {
            if section != SEC_Q {
                return None;
            }
            let (name, ne) = decode_plain_name(rr_bytes, 0).ok()?;
            if ne + 4 != rr_bytes.len() {
                return None;
            }
            let qtype = ((rr_bytes[ne] as u16) << 8) | rr_bytes[ne + 1] as u16;
            let qclass = ((rr_bytes[ne + 2] as u16) << 8) | rr_bytes[ne + 3] as u16;
            if m.q.is_some() {
                return None;
            }
            m.q = Some(Question {
                name,
                qtype,
                qclass,
            });
            Some(m)
        } else {
            let (rec, end, _) = decode_record(rr_bytes, 0).ok()?;
            if end != rr_bytes.len() {
                return None;
            }
            if section == SEC_Q {
                // record text aimed at the question section: what a question can hold of it is
                // its name, type and class
                if m.q.is_some() {
                    return None;
                }
                m.q = Some(Question {
                    name: rec.name,
                    qtype: rec.rtype,
                    qclass: rec.class,
                });
                return Some(m);
            }
            m.section_mut(section).push(rec);
            Some(m)
        }
    }

    fn do_insert(
        &mut self,
        pp: &mut ParsedPacket,
        section: usize,
        rr: dgen::RR,
        name: &str,
        question_form: bool,
    ) -> Result<bool, Violation> {
        let opname = format!("{}@{}", name, SEC_NAMES[section]);
        let expected = self.expected_after_insert(section, &rr.packet, question_form);
        let rr_len = rr.packet.len();
        let unc_len = self.uncompressed_len();
        let tags = self.state_tags(pp);
        let r = guarded(|| pp.insert_rr(Self::section_enum(section), rr));
        self.finish_insert(pp, opname, expected, rr_len, unc_len, tags, r.map(to_res))
    }

    fn do_insert_text(
        &mut self,
        pp: &mut ParsedPacket,
        section: usize,
        text: &str,
        rr: Option<dgen::RR>,
    ) -> Result<bool, Violation> {
        let opname = format!("insert_rr_from_string@{}", SEC_NAMES[section]);
        let (expected, rr_len) = match &rr {
            Some(rr) => (
                self.expected_after_insert(section, &rr.packet, false),
                if section == SEC_Q {
                    // only name, type and class go into the question section
                    decode_plain_name(&rr.packet, 0).map(|(_, e)| e + 4).unwrap_or(rr.packet.len())
                } else {
                    rr.packet.len()
                },
            ),
            None => (None, 0),
        };
        let unc_len = self.uncompressed_len();
        let tags = self.state_tags(pp);
        let r = guarded(|| pp.insert_rr_from_string(Self::section_enum(section), text));
        self.finish_insert(pp, opname, expected, rr_len, unc_len, tags, r.map(to_res))
    }

    /// Pointer-free length of the current message (what the library works on when inserting).
    fn uncompressed_len(&self) -> usize {
        encode_literal(&self.model).len()
    }

    fn finish_insert(
        &mut self,
        pp: &ParsedPacket,
        opname: String,
        expected: Option<Msg>,
        rr_len: usize,
        unc_len: usize,
        tags: String,
        r: Result<Res, String>,
    ) -> Result<bool, Violation> {
        let over = rr_len > 0 && unc_len + rr_len > MAX_UNCOMPRESSED;
        if over {
            bump(&mut self.stats, "fault_fired:too_large");
        }
        match r {
            Err(panic) => {
                bump(&mut self.stats, "panic_in_insert");
                if over {
                    return Err(self.viol(
                        &["C10"],
                        "size-limit",
                        &opname,
                        "panic-instead-of-too-large",
                        format!(
                            "{} of a {}-byte record into a packet of {} uncompressed bytes panicked instead of reporting 'too large': {}",
                            opname, rr_len, unc_len, panic
                        ),
                    ));
                }
                Err(self.viol(
                    &["C09"],
                    "panic-in-mutator",
                    &opname,
                    format!("{}{}", first_words(&panic), tags),
                    format!("{} panicked: {}", opname, panic),
                ))
            }
            Ok(res) => {
                if let Res::Err(e) = &res {
                    bump(&mut self.stats, &format!("error_returned:{}", first_words(e)));
                }
                if over {
                    if let Res::Ok = res {
                        let len = pp.packet.as_ref().map(|p| p.len()).unwrap_or(0);
                        return Err(self.viol(
                            &["C10"],
                            "size-limit",
                            &opname,
                            "ok-but-larger-than-8192",
                            format!(
                                "{} of a {}-byte record into a packet of {} uncompressed bytes returned Ok (packet now {} bytes)",
                                opname, rr_len, unc_len, len
                            ),
                        ));
                    }
                }
                let info = OpInfo {
                    name: opname,
                    mutator: true,
                    expected: if matches!(res, Res::Ok) { expected } else { None },
                    is_insert: true,
                    fault: false,
                    tags,
                    extra: &[],
                };
                if matches!(res, Res::Ok) {
                    // new uid for the appended record
                    if let Some(s) = SEC_NAMES.iter().position(|n| info.name.ends_with(&format!("@{}", n))) {
                        self.next_uid += 1;
                        self.uids[s].push(self.next_uid);
                    }
                }
                self.check_after(pp, &info, &res)?;
                Ok(true)
            }
        }
    }

    // -----------------------------------------------------------------------------------------
    // walks
    // -----------------------------------------------------------------------------------------

    fn locate(&self, kind: u8, offset: usize) -> Option<usize> {
        if kind == W_EDNS {
            self.dec.layout.opts.iter().position(|o| o.0 == offset)
        } else {
            self.dec.layout.recs[walk_section(kind)]
                .iter()
                .position(|r| r.0 == offset)
        }
    }

    /// Compares what a positioned cursor reports with the model's record at `k`.
    fn cursor_matches(&self, cur: &Cur, kind: u8, k: usize) -> Result<(), String> {
        let lay = &self.dec.layout;
        match cur {
            Cur::E(_) => {
                let (o, _, l) = lay.opts[k];
                if cur.offset_next() != o + 4 + l {
                    return Err(format!(
                        "offset_next {} but the option ends at {}",
                        cur.offset_next(),
                        o + 4 + l
                    ));
                }
                Ok(())
            }
            Cur::Q(it) => {
                let q = self.model.q.as_ref().ok_or("no question in the model")?;
                let (_, end) = lay.recs[0][k];
                if it.offset_next() != end {
                    return Err(format!("offset_next {} but the question ends at {}", it.offset_next(), end));
                }
                let mut raw = Vec::new();
                it.copy_raw_name(&mut raw);
                if raw != q.name.wire() {
                    return Err(format!(
                        "name {} but the question's name is {}",
                        Name::from_wire(&raw).map(|n| n.show()).unwrap_or_else(|| hex(&raw)),
                        q.name.show()
                    ));
                }
                if it.rr_type() != q.qtype || it.rr_class() != q.qclass {
                    return Err("type/class differ".into());
                }
                Ok(())
            }
            Cur::R(it) => {
                let s = walk_section(kind);
                let rec = &self.model.section(s)[k];
                let (_, end) = lay.recs[s][k];
                if it.offset_next() != end {
                    return Err(format!("offset_next {} but the record ends at {}", it.offset_next(), end));
                }
                let mut raw = Vec::new();
                it.copy_raw_name(&mut raw);
                if raw != rec.name.wire() {
                    return Err(format!(
                        "owner name {} but the record's owner name is {}",
                        Name::from_wire(&raw).map(|n| n.show()).unwrap_or_else(|| hex(&raw)),
                        rec.name.show()
                    ));
                }
                if it.rr_type() != rec.rtype {
                    return Err(format!("type {} but the record's type is {}", it.rr_type(), rec.rtype));
                }
                if it.rr_class() != rec.class {
                    return Err(format!("class {} vs {}", it.rr_class(), rec.class));
                }
                if it.rr_ttl() != rec.ttl {
                    return Err(format!("ttl {} but the record's ttl is {}", it.rr_ttl(), rec.ttl));
                }
                match (&rec.rdata, it.rr_ip()) {
                    (RData::A(a), Ok(IpAddr::V4(ip))) if ip.octets() == *a => {}
                    (RData::AAAA(a), Ok(IpAddr::V6(ip))) if ip.octets() == *a => {}
                    (RData::A(_), _) | (RData::AAAA(_), _) => return Err("address differs".into()),
                    _ => {}
                }
                Ok(())
            }
        }
    }

    fn expected_following(&self, kind: u8, k: usize, including_opt: bool) -> Option<usize> {
        let n = if kind == W_EDNS {
            self.dec.layout.opts.len()
        } else {
            self.model.count(walk_section(kind))
        };
        let mut j = k + 1;
        if j >= n {
            return None;
        }
        if !including_opt && (kind == W_ADDITIONAL || kind == W_ADDITIONAL_OPT) {
            if self.model.section(SEC_AR)[j].is_opt() {
                j += 1;
                if j >= n {
                    return None;
                }
            }
        }
        Some(j)
    }

    fn run_walk(
        &mut self,
        pp: &mut ParsedPacket,
        kind: u8,
        src: &mut dyn Source,
        recorded: &mut Vec<CurOp>,
    ) -> Result<(), Violation> {
        let wname = WALK_NAMES[kind as usize];
        let sec = walk_section(kind);
        let n0 = if kind == W_EDNS {
            self.dec.layout.opts.len()
        } else {
            self.model.count(sec)
        };
        let cap = (n0 + 1) * (n0 + 1) + 4;
        let opened = guarded(|| match kind {
            W_QUESTION => pp.into_iter_question().map(Cur::Q),
            W_ANSWER => pp.into_iter_answer().map(Cur::R),
            W_NAMESERVERS => pp.into_iter_nameservers().map(Cur::R),
            W_ADDITIONAL => pp.into_iter_additional().map(Cur::R),
            W_ADDITIONAL_OPT => pp.into_iter_additional_including_opt().map(Cur::R),
            _ => pp.into_iter_edns().map(Cur::E),
        });
        let mut cur: Option<Cur> = match opened {
            Ok(c) => c,
            Err(p) => {
                bump(&mut self.stats, "ended_by_unclaimed_panic:open_walk");
                return Err(self.viol(&[], "unclaimed-panic", &format!("open@{}", wname), first_words(&p), p));
            }
        };
        self.logev(&format!("open {} -> {}", wname, cur.is_some()));
        let mut yields = 0usize;
        let mut visited: BTreeMap<u32, u32> = BTreeMap::new();
        let mut deleted_here = 0usize;
        let mut plain_next_used = kind != W_ADDITIONAL_OPT && kind != W_EDNS && kind != W_QUESTION;
        // position bookkeeping
        let mut idx: Option<usize> = None; // index the cursor designates (None: tombstone)
        let mut dirty_here = false; // name set / uncompressed through this cursor at this position
        let mut cur_mutated = false; // any mutation went through this cursor in this walk
        let mut expect_next: Option<Option<usize>> = None;
        let mut complete = false;
        let mut walk_steps = 0usize;

        // helper closure replaced by inline code because of borrow rules
        loop {
            // ---- account for a (new) yield
            match &cur {
                None => {
                    complete = true;
                    break;
                }
                Some(c) => {
                    if idx.is_none() && c.offset().is_some() && !dirty_here {
                        // a fresh yield: identify the record by the cursor's offset
                        yields += 1;
                        let off = c.offset().unwrap();
                        let props: &[&'static str] = if deleted_here > 0 {
                            &["C11"]
                        } else if cur_mutated {
                            &["C08"]
                        } else {
                            &[]
                        };
                        let k = match self.locate(kind, off) {
                            Some(k) => k,
                            None => {
                                if props.is_empty() {
                                    bump(&mut self.stats, "unclaimed_reader_mismatch");
                                }
                                return Err(self.viol(
                                    props,
                                    "yield-not-a-record",
                                    &format!("next@{}", wname),
                                    if deleted_here > 0 { "after-delete" } else { "" },
                                    format!(
                                        "the {} walk yielded a cursor at offset {} which is not the start of a record of that section",
                                        wname, off
                                    ),
                                ));
                            }
                        };
                        if let Err(why) = self.cursor_matches(c, kind, k) {
                            if props.is_empty() {
                                bump(&mut self.stats, "unclaimed_reader_mismatch");
                            }
                            return Err(self.viol(
                                props,
                                "yield-content",
                                &format!("next@{}", wname),
                                if deleted_here > 0 { "after-delete" } else { "" },
                                format!("the {} walk yielded record #{} but reports {}", wname, k, why),
                            ));
                        }
                        if let Some(exp) = expect_next.take() {
                            if exp != Some(k) {
                                return Err(self.viol(
                                    &["C08"],
                                    "advance-after-cursor-mutation",
                                    &format!("next@{}", wname),
                                    "",
                                    format!(
                                        "advancing a cursor that had changed record #{} yielded record #{} instead of {:?}",
                                        exp.map(|x| x as i64 - 1).unwrap_or(-1),
                                        k,
                                        exp
                                    ),
                                ));
                            }
                        }
                        idx = Some(k);
                        if kind != W_EDNS {
                            if let Some(uid) = self.uids[sec].get(k) {
                                *visited.entry(*uid).or_insert(0) += 1;
                            }
                        }
                        self.logev(&format!("yield {}#{}", wname, k));
                        if yields > cap {
                            return Err(self.viol(
                                &["C11"],
                                "walk-does-not-terminate",
                                &format!("walk@{}", wname),
                                "",
                                format!(
                                    "a {} walk over {} records produced more than {} yields",
                                    wname, n0, cap
                                ),
                            ));
                        }
                    }
                }
            }
            // ---- next cursor operation
            let c = cur.as_mut().unwrap();
            let ppr = c.pp();
            let (uid, visits) = match idx {
                Some(k) if kind != W_EDNS && k < self.uids[sec].len() => {
                    let u = self.uids[sec][k];
                    (Some(u), *visited.get(&u).unwrap_or(&0))
                }
                _ => (None, 0),
            };
            let rec_clone: Option<Rec> = match idx {
                Some(k) if kind != W_EDNS && kind != W_QUESTION => Some(self.model.section(sec)[k].clone()),
                _ => None,
            };
            let cv = CurView {
                kind,
                idx,
                rec: rec_clone.as_ref(),
                uid,
                visits,
                yields,
                section_len: if kind == W_EDNS {
                    self.dec.layout.opts.len()
                } else {
                    self.model.count(sec)
                },
                model: &self.model,
                len: ppr.packet.as_ref().map(|p| p.len()).unwrap_or(0),
                maybe_compressed: ppr.maybe_compressed,
            };
            let step = match src.next_cur(&cv) {
                Some(s) => s,
                None => break,
            };
            walk_steps += 1;
            if walk_steps > 8 * cap + 64 {
                // runaway script/generator, not a property of the library
                bump(&mut self.stats, "walk_step_budget_exhausted");
                break;
            }
            self.step += 1;
            self.shape.write_str(step.kind());
            if self.verbose {
                eprintln!("[{}] cur {:?} idx={:?} len={}", self.step, step, idx, cv.len);
            }
            let tomb = c.offset().is_none();
            let tags = {
                let mut t = self.state_tags(c.pp());
                if tomb {
                    t.push_str("+tombstone");
                }
                if let Some(r) = &rec_clone {
                    if r.is_opt() {
                        t.push_str("+on-OPT");
                    }
                }
                t
            };
            match &step {
                CurOp::Next | CurOp::NextOpt => {
                    let inc = matches!(step, CurOp::NextOpt);
                    if !inc && matches!(c, Cur::R(_)) {
                        plain_next_used = true;
                    }
                    recorded.push(step.clone());
                    if let Some(k) = idx {
                        if dirty_here {
                            expect_next = Some(self.expected_following(kind, k, inc || kind == W_EDNS || kind == W_QUESTION));
                        }
                    }
                    let taken = cur.take().unwrap();
                    let r = guarded(move || taken.next(inc));
                    match r {
                        Ok(nc) => {
                            if nc.is_none() {
                                if let Some(Some(k)) = expect_next {
                                    return Err(self.viol(
                                        &["C08"],
                                        "advance-after-cursor-mutation",
                                        &format!("next@{}", wname),
                                        "",
                                        format!(
                                            "advancing a cursor that had changed a record ended the walk although record #{} follows",
                                            k
                                        ),
                                    ));
                                }
                            }
                            cur = nc;
                            idx = None;
                            dirty_here = false;
                        }
                        Err(p) => {
                            let props: &[&'static str] = if deleted_here > 0 {
                                &["C11"]
                            } else if cur_mutated {
                                &["C08"]
                            } else {
                                &[]
                            };
                            if props.is_empty() {
                                bump(&mut self.stats, "ended_by_unclaimed_panic:next");
                            }
                            return Err(self.viol(
                                props,
                                if props.is_empty() { "unclaimed-panic" } else { "panic-in-advance" },
                                &format!("next@{}", wname),
                                format!("{}{}", first_words(&p), if deleted_here > 0 { "+after-delete" } else { "" }),
                                format!("advancing the {} cursor panicked: {}", wname, p),
                            ));
                        }
                    }
                    continue;
                }
                CurOp::Uncompress => {
                    recorded.push(step.clone());
                    let r = guarded(|| c.uncompress());
                    let opname = format!("cursor_uncompress@{}", wname);
                    match r {
                        Err(p) => {
                            bump(&mut self.stats, "ended_by_unclaimed_panic:cursor_uncompress");
                            return Err(self.viol(&[], "unclaimed-panic", &opname, first_words(&p), p));
                        }
                        Ok(res) => {
                            let res = match res {
                                Ok(()) => Res::Ok,
                                Err(e) => Res::Err(e),
                            };
                            let info = OpInfo {
                                name: opname.clone(),
                                mutator: false,
                                expected: None,
                                is_insert: false,
                                fault: false,
                                tags: tags.clone(),
                                extra: &[],
};
                            self.check_after(c.pp(), &info, &res)?;
                            if let (Res::Ok, Some(k)) = (&res, idx) {
                                cur_mutated = true;
                                dirty_here = true;
                                if let Err(v) = self.coherence(c, kind, k, &opname, &tags) {
                                    self.soft(v)?;
                                }
                            }
                        }
                    }
                }
                CurOp::SetTtl(v) => {
                    let it = match (c, idx) {
                        (Cur::R(it), Some(_)) => it,
                        _ => continue, // not applicable: skipped
                    };
                    recorded.push(step.clone());
                    let k = idx.unwrap();
                    let opname = format!("set_rr_ttl@{}", wname);
                    let mut exp = self.model.clone();
                    exp.section_mut(sec)[k].ttl = *v;
                    let r = guarded(|| it.set_rr_ttl(*v));
                    match r {
                        Err(p) => {
                            return Err(self.viol(
                                &["C09"],
                                "panic-in-mutator",
                                &opname,
                                format!("{}{}", first_words(&p), tags),
                                format!("{} panicked: {}", opname, p),
                            ))
                        }
                        Ok(()) => {
                            let info = OpInfo {
                                name: opname.clone(),
                                mutator: true,
                                expected: Some(exp),
                                is_insert: false,
                                fault: false,
                                tags: tags.clone(),
                                extra: &[],
};
                            self.check_after(it.parsed_packet(), &info, &Res::Ok)?;
                            cur_mutated = true;
                            let c = cur.as_ref().unwrap();
                            if let Err(v) = self.coherence(c, kind, k, &opname, &tags) {
                                    self.soft(v)?;
                                }
                        }
                    }
                }
                CurOp::SetIp(ipb) => {
                    let it = match (c, idx) {
                        (Cur::R(it), Some(_)) => it,
                        _ => continue,
                    };
                    let ip = match ipb.len() {
                        4 => IpAddr::V4(Ipv4Addr::new(ipb[0], ipb[1], ipb[2], ipb[3])),
                        16 => {
                            let mut a = [0u8; 16];
                            a.copy_from_slice(ipb);
                            IpAddr::V6(Ipv6Addr::from(a))
                        }
                        _ => continue,
                    };
                    recorded.push(step.clone());
                    let k = idx.unwrap();
                    let opname = format!("set_rr_ip@{}", wname);
                    let mut exp = self.model.clone();
                    let legal = {
                        let r = &mut exp.section_mut(sec)[k];
                        match (&r.rdata, ipb.len()) {
                            (RData::A(_), 4) if r.rtype == T_A => {
                                r.rdata = RData::A([ipb[0], ipb[1], ipb[2], ipb[3]]);
                                true
                            }
                            (RData::AAAA(_), 16) if r.rtype == T_AAAA => {
                                let mut a = [0u8; 16];
                                a.copy_from_slice(ipb);
                                r.rdata = RData::AAAA(a);
                                true
                            }
                            _ => false,
                        }
                    };
                    if !legal {
                        bump(&mut self.stats, "fault_fired:wrong_family");
                    }
                    let r = guarded(|| it.set_rr_ip(&ip));
                    match r {
                        Err(p) => {
                            return Err(self.viol(
                                if legal { &["C09"] } else { &["C10"] },
                                "panic-in-mutator",
                                &opname,
                                format!("{}{}", first_words(&p), tags),
                                format!("{} panicked: {}", opname, p),
                            ))
                        }
                        Ok(res) => {
                            let res = to_res(res);
                            if let Res::Err(e) = &res {
                                bump(&mut self.stats, &format!("error_returned:{}", first_words(e)));
                            }
                            let info = OpInfo {
                                name: opname.clone(),
                                mutator: true,
                                // an Ok on illegal arguments must at least leave the message alone
                                expected: if legal { Some(exp) } else { Some(self.model.clone()) },
                                is_insert: false,
                                fault: !legal,
                                tags: tags.clone(),
                                extra: &[],
                            };
                            self.check_after(it.parsed_packet(), &info, &res)?;
                            if matches!(res, Res::Ok) {
                                cur_mutated = true;
                            }
                            let c = cur.as_ref().unwrap();
                            if let Err(v) = self.coherence(c, kind, k, &opname, &tags) {
                                    self.soft(v)?;
                                }
                        }
                    }
                }
                CurOp::SetRawName(raw) => {
                    if matches!(c, Cur::E(_)) {
                        continue;
                    }
                    recorded.push(step.clone());
                    let opname = format!("set_raw_name@{}", wname);
                    let valid = valid_raw_name(raw);
                    if valid.is_none() {
                        bump(&mut self.stats, "fault_fired:bad_name");
                    }
                    if tomb {
                        bump(&mut self.stats, "fault_fired:tombstone_reuse");
                    }
                    let expected = match (&valid, idx) {
                        (Some(nm), Some(k)) => {
                            let mut exp = self.model.clone();
                            if kind == W_QUESTION {
                                exp.q.as_mut().unwrap().name = nm.clone();
                            } else {
                                exp.section_mut(sec)[k].name = nm.clone();
                            }
                            Some(exp)
                        }
                        // on a tombstone nothing may change, whatever is returned
                        (_, None) => Some(self.model.clone()),
                        _ => None,
                    };
                    let grows_past_64k = {
                        let cur_len = c.pp().packet.as_ref().map(|p| p.len()).unwrap_or(0);
                        valid.is_some() && cur_len + 255 > 0xffff
                    };
                    let r = guarded(|| match c {
                        Cur::Q(it) => it.set_raw_name(raw),
                        Cur::R(it) => it.set_raw_name(raw),
                        Cur::E(_) => unreachable!(),
                    });
                    match r {
                        Err(p) => {
                            let legal = valid.is_some() && !tomb && !grows_past_64k;
                            return Err(self.viol(
                                if legal { &["C09"] } else { &["C10"] },
                                "panic-in-mutator",
                                &opname,
                                format!("{}{}", first_words(&p), tags),
                                format!(
                                    "{} with {} name ({} bytes) panicked: {}",
                                    opname,
                                    if valid.is_some() { "a well-formed" } else { "a malformed" },
                                    raw.len(),
                                    p
                                ),
                            ));
                        }
                        Ok(res) => {
                            let res = to_res(res);
                            if let Res::Err(e) = &res {
                                bump(&mut self.stats, &format!("error_returned:{}", first_words(e)));
                                if e.contains("too large") {
                                    bump(&mut self.stats, "fault_fired:grow_past_64k");
                                }
                            }
                            let info = OpInfo {
                                name: opname.clone(),
                                mutator: true,
                                expected: if matches!(res, Res::Ok) { expected } else { None },
                                is_insert: false,
                                fault: valid.is_none() || tomb,
                                tags: tags.clone(),
                                extra: &[],
                            };
                            self.check_after(c.pp(), &info, &res)?;
                            if let (Res::Ok, Some(k)) = (&res, idx) {
                                cur_mutated = true;
                                dirty_here = true;
                                let c = cur.as_ref().unwrap();
                                if let Err(v) = self.coherence(c, kind, k, &opname, &tags) {
                                    self.soft(v)?;
                                }
                            } else if matches!(res, Res::Ok) && tomb {
                                // allowed only if nothing changed (checked above through `expected`)
                            } else if let Some(k) = idx {
                                // a failed set_raw_name may have decompressed the packet in place;
                                // the cursor must still designate its record
                                let c = cur.as_ref().unwrap();
                                if let Err(v) = self.coherence_after_err(c, kind, k, &opname, &tags) {
                                    self.soft(v)?;
                                }
                            }
                        }
                    }
                }
                CurOp::Delete => {
                    if matches!(c, Cur::E(_)) {
                        continue;
                    }
                    recorded.push(step.clone());
                    let opname = format!("delete@{}", wname);
                    if tomb {
                        bump(&mut self.stats, "fault_fired:tombstone_reuse");
                    }
                    let expected = match idx {
                        Some(k) => {
                            let mut exp = self.model.clone();
                            if kind == W_QUESTION {
                                exp.q = None;
                            } else {
                                exp.section_mut(sec).remove(k);
                            }
                            exp
                        }
                        None => self.model.clone(),
                    };
                    let r = guarded(|| match c {
                        Cur::Q(it) => it.delete(),
                        Cur::R(it) => it.delete(),
                        Cur::E(_) => unreachable!(),
                    });
                    match r {
                        Err(p) => {
                            return Err(self.viol(
                                if tomb { &["C10", "C11"] } else { &["C09", "C11"] },
                                "panic-in-mutator",
                                &opname,
                                format!("{}{}", first_words(&p), tags),
                                format!("{} panicked: {}", opname, p),
                            ));
                        }
                        Ok(res) => {
                            let res = to_res(res);
                            if let Res::Err(e) = &res {
                                bump(&mut self.stats, &format!("error_returned:{}", first_words(e)));
                            }
                            if tomb {
                                if let Res::Ok = res {
                                    return Err(self.viol(
                                        &["C11"],
                                        "second-delete-not-refused",
                                        &opname,
                                        "",
                                        "a second delete through the same cursor returned Ok instead of reporting a void record",
                                    ));
                                }
                            }
                            // A deletion through a live cursor has no legitimate reason to
                            // fail on a packet that stays small when decompressed (C11: "each
                            // deletion removes exactly the record under the cursor").
                            if let (Res::Err(e), false, Some(_)) = (&res, tomb, idx) {
                                let lit = crate::codec::encode_literal(&self.model).len();
                                // (in states the parser refuses for policy-only reasons the
                                // library's re-parse inside delete() refuses too: not judged)
                                if lit <= MAX_UNCOMPRESSED && self.dec.policy.is_empty() {
                                    return Err(self.viol(
                                        &["C11"],
                                        "live-delete-refused",
                                        &opname,
                                        format!("{}{}", first_words(e), tags),
                                        format!(
                                            "{} on a live record of a {}-byte message returned an error instead of removing it: {}",
                                            opname, lit, e
                                        ),
                                    ));
                                }
                                bump(&mut self.stats, "live_delete_refused_not_judged(large_or_policy_state)");
                            }
                            let ok = matches!(res, Res::Ok);
                            let info = OpInfo {
                                name: opname.clone(),
                                mutator: true,
                                expected: if ok { Some(expected) } else { None },
                                is_insert: false,
                                fault: tomb,
                                tags: tags.clone(),
                                extra: &["C11"],
                            };
                            if ok {
                                if let Some(k) = idx {
                                    if k < self.uids[sec].len() {
                                        self.uids[sec].remove(k);
                                    }
                                }
                            }
                            // C11 shares the verdict on deletions
                            if let Err(mut v) = self.check_after(c.pp(), &info, &res) {
                                if !v.has("C11") {
                                    v.props.push("C11");
                                }
                                return Err(v);
                            }
                            if ok {
                                cur_mutated = true;
                                if let Some(k) = idx {
                                    deleted_here += 1;
                                    bump(&mut self.stats, "probe:delete_ok");
                                    if k == 0 {
                                        bump(&mut self.stats, "probe:delete_first");
                                    }
                                    if self.model.count(sec) == 0 {
                                        bump(&mut self.stats, "probe:section_emptied");
                                    }
                                }
                                idx = None;
                                dirty_here = false;
                                let c = cur.as_ref().unwrap();
                                if c.offset().is_some() {
                                    return Err(self.viol(
                                        &["C11"],
                                        "cursor-not-invalidated",
                                        &opname,
                                        "",
                                        "after a successful delete the cursor still designates a record",
                                    ));
                                }
                            }
                        }
                    }
                }
            }
        }
        // ---- end of walk: C11 coverage
        // (the empty choice of deletions is a choice too: a walk that ran to the end has to have
        // yielded every record of its section, whatever earlier operations did to the packet)
        if complete && kind != W_EDNS {
            for (k, uid) in self.uids[sec].iter().enumerate() {
                if kind != W_QUESTION {
                    let rec = &self.model.section(sec)[k];
                    if rec.is_opt() && plain_next_used {
                        continue;
                    }
                }
                if !visited.contains_key(uid) {
                    return Err(self.viol(
                        &["C11"],
                        "survivor-never-yielded",
                        &format!("walk@{}", wname),
                        "",
                        format!(
                            "a complete {} walk with {} deletion(s) never yielded surviving record #{}",
                            wname, deleted_here, k
                        ),
                    ));
                }
            }
            if deleted_here > 0 {
                bump(&mut self.stats, "probe:complete_delete_walk");
            }
        }
        if complete {
            bump(&mut self.stats, "probe:walk_ran_to_end");
        }
        Ok(())
    }

    /// After a successful cursor mutation the cursor must still designate record `k`.
    fn coherence(&self, c: &Cur, kind: u8, k: usize, opname: &str, tags: &str) -> Result<(), Violation> {
        let wname = WALK_NAMES[kind as usize];
        let off = match c.offset() {
            Some(o) => o,
            None => {
                return Err(self.viol(
                    &["C08"],
                    "cursor-coherence",
                    opname,
                    format!("lost-position{}", tags),
                    format!("after {} the cursor no longer designates a record", opname),
                ))
            }
        };
        let want = if kind == W_EDNS {
            self.dec.layout.opts.get(k).map(|o| o.0)
        } else {
            self.dec.layout.recs[walk_section(kind)].get(k).map(|r| r.0)
        };
        if Some(off) != want {
            return Err(self.viol(
                &["C08"],
                "cursor-coherence",
                opname,
                format!("offset{}", tags),
                format!(
                    "after {} the cursor is at offset {} but {} record #{} now starts at {:?}",
                    opname, off, wname, k, want
                ),
            ));
        }
        let r = guarded(|| self.cursor_matches(c, kind, k));
        match r {
            Ok(Ok(())) => Ok(()),
            Ok(Err(why)) => Err(self.viol(
                &["C08"],
                "cursor-coherence",
                opname,
                format!("content{}", tags),
                format!("after {} the cursor on {} record #{} reports {}", opname, wname, k, why),
            )),
            Err(p) => Err(self.viol(
                &["C08"],
                "cursor-coherence",
                opname,
                format!("accessor-panic{}", tags),
                format!("after {} the cursor's accessors panicked: {}", opname, p),
            )),
        }
    }

    /// After a *failed* cursor operation (C10: the object still satisfies C08).
    fn coherence_after_err(&self, c: &Cur, kind: u8, k: usize, opname: &str, tags: &str) -> Result<(), Violation> {
        match self.coherence(c, kind, k, opname, tags) {
            Ok(()) => Ok(()),
            Err(mut v) => {
                v.props = vec!["C10"];
                v.clause = "cursor-coherence-after-failure".into();
                Err(v)
            }
        }
    }
}

fn to_res(r: Result<(), Error>) -> Res {
    match r {
        Ok(()) => Res::Ok,
        Err(e) => Res::Err(e.to_string()),
    }
}

/// Stable prefix of a message for signatures: drops numbers.
pub fn first_words(s: &str) -> String {
    let mut out = String::new();
    let mut last_hash = false;
    for ch in s.chars() {
        if ch.is_ascii_digit() {
            if !last_hash {
                out.push('#');
                last_hash = true;
            }
        } else {
            out.push(ch);
            last_hash = false;
        }
        if out.len() >= 60 {
            break;
        }
    }
    out
}

fn make_init(init: &Init) -> Result<ParsedPacket, String> {
    match init {
        Init::Bytes(b) => match guarded(|| DNSSector::new(b.clone()).and_then(|d| d.parse())) {
            Ok(Ok(p)) => Ok(p),
            Ok(Err(e)) => Err(format!("parser rejects the generated packet: {}", e)),
            Err(p) => Err(format!("parser panicked on the generated packet: {}", p)),
        },
        Init::Empty { tid } => {
            let mut p = ParsedPacket::empty();
            p.set_tid(*tid);
            Ok(p)
        }
        Init::Query {
            name_text,
            qtype,
            tid,
        } => {
            let ty = type_from_u16(*qtype).ok_or("unknown type")?;
            match guarded(|| dgen::query(name_text.as_bytes(), ty, Class::IN)) {
                Ok(Ok(mut p)) => {
                    p.set_tid(*tid);
                    Ok(p)
                }
                Ok(Err(e)) => Err(format!("query synthesis refused: {}", e)),
                Err(p) => Err(format!("query synthesis panicked: {}", p)),
            }
        }
    }
}

/// Runs one history. `src` supplies operations (generator or script); the executed operations are
/// recorded explicitly so that the outcome can be replayed from the returned scenario.
pub fn execute(init: &Init, src: &mut dyn Source, verbose: bool, target: &str) -> Outcome {
    let mut executed = Scenario {
        init: init.clone(),
        ops: Vec::new(),
    };
    let mut pp = match make_init(init) {
        Ok(p) => p,
        Err(e) => {
            return Outcome {
                executed,
                violation: None,
                log_hash: 0,
                stats: Stats::new(),
                rejected: Some(e),
                steps: 0,
                shape_hash: 0,
                state_changes: 0,
            }
        }
    };
    let bytes = pp.packet().to_vec();
    let dec = match decode(&bytes) {
        Ok(d) => d,
        Err(e) => {
            return Outcome {
                executed,
                violation: None,
                log_hash: 0,
                stats: Stats::new(),
                rejected: Some(format!("recogniser rejects the initial packet: {}", e.0)),
                steps: 0,
                shape_hash: 0,
                state_changes: 0,
            }
        }
    };
    let mut ex = Exec {
        model: dec.msg.clone(),
        dec,
        uids: Default::default(),
        next_uid: 0,
        step: 0,
        log: Fnv::new(),
        stats: Stats::new(),
        shape: Fnv::new(),
        state_changes: 0,
        verbose,
        trace: Vec::new(),
        target: target.to_string(),
    };
    ex.assign_uids();
    // Self-check of the initial state: the object must already agree with the recogniser's
    // layout (for parsed packets this compares parser and recogniser; disagreement means the
    // harness cannot judge this packet).
    if matches!(init, Init::Bytes(_)) {
        let probe = pp_from_layout(bytes.clone(), &ex.dec.layout);
        let a = observe(&pp);
        let b = observe(&probe);
        if let Some(d) = first_diff(&a, &b) {
            return Outcome {
                executed,
                violation: None,
                log_hash: 0,
                stats: Stats::new(),
                rejected: Some(format!("parser and recogniser disagree on the initial packet: {}", d)),
                steps: 0,
                shape_hash: 0,
                state_changes: 0,
            };
        }
    }
    let mut h = Fnv::new();
    h.write(&bytes);
    ex.logev(&format!("init len={} bytes={:016x}", bytes.len(), h.finish()));
    let mut violation = None;
    loop {
        let op = {
            let v = ex.view(&pp);
            match src.next_op(&v) {
                Some(op) => op,
                None => break,
            }
        };
        ex.shape.write_str(op.kind());
        if verbose {
            eprintln!("[{}] op {:?} len={}", ex.step + 1, op, pp.packet.as_ref().map(|p| p.len()).unwrap_or(0));
        }
        match &op {
            Op::Walk { kind, .. } => {
                ex.step += 1;
                let mut recorded = Vec::new();
                let r = ex.run_walk(&mut pp, *kind, src, &mut recorded);
                executed.ops.push(Op::Walk {
                    kind: *kind,
                    steps: recorded,
                });
                if let Err(v) = r {
                    violation = Some(v);
                    break;
                }
            }
            _ => {
                ex.step += 1;
                let r = ex.run_packet_op(&mut pp, &op);
                match r {
                    Ok(true) => executed.ops.push(op),
                    Ok(false) => {
                        bump(&mut ex.stats, "op_skipped_not_applicable");
                    }
                    Err(v) => {
                        executed.ops.push(op);
                        violation = Some(v);
                        break;
                    }
                }
            }
        }
    }
    if verbose {
        for l in &ex.trace {
            eprintln!("{}", l);
        }
    }
    let _ = BTreeSet::<u8>::new();
    Outcome {
        executed,
        violation,
        log_hash: ex.log.finish(),
        stats: ex.stats,
        rejected: None,
        steps: ex.step,
        shape_hash: ex.shape.finish(),
        state_changes: ex.state_changes,
    }
}
