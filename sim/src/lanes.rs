//! Per-property run functions: one (VERIF_SEED, property, run index) triple is one exactly
//! repeatable execution.

use crate::exec::{self, Stats, Violation};
use crate::gen;
use crate::gensrc::{self, Focus};
use crate::ops;
use crate::prng;
use serde_json::{json, Value};

pub struct RunReport {
    pub log_hash: u64,
    pub shape_hash: u64,
    pub nontrivial: bool,
    pub steps: usize,
    pub stats: Stats,
    /// violation plus the explicit scenario that produced it
    pub violation: Option<(Violation, Value)>,
    pub rejected: Option<String>,
    /// explicit scenario (for evidence samples)
    pub scenario: Value,
    pub lane: &'static str,
}

pub fn focus_for(prop: &str) -> Focus {
    match prop {
        "C09" => Focus::Effect,
        "C10" => Focus::Faults,
        "C11" => Focus::DeleteWalk,
        _ => Focus::View,
    }
}

pub fn make_run(seed: u64, focus: Focus) -> (ops::Init, gensrc::GenSource, String) {
    let mut rng = prng::Rng::new(seed);
    let swarm = gensrc::Swarm::draw(&mut rng, focus);
    let weights: [u32; 7] = match focus {
        Focus::Faults => [20, 38, 14, 5, 13, 5, 5],
        Focus::DeleteWalk => [15, 42, 28, 8, 4, 1, 2],
        _ => [20, 44, 19, 8, 4, 2, 3],
    };
    let mut cfg = gen::gen_packet_cfg(&mut rng, &weights);
    if focus == Focus::DeleteWalk {
        cfg.unique_tags = true;
        cfg.max_section = 12;
    }
    let init = match rng.below(12) {
        0 => ops::Init::Empty {
            tid: rng.next_u64() as u16,
        },
        1 => {
            let mut n = gen::gen_ldh_name(&mut rng);
            if rng.chance(1, 10) {
                let l = *rng.pick(&[61usize, 62, 63, 64, 65]);
                n = crate::model::Name(vec![vec![b'q'; l], b"example".to_vec()]);
            }
            ops::Init::Query {
                name_text: String::from_utf8_lossy(&n.text()).into_owned(),
                qtype: *rng.pick(&[1u16, 28, 15, 2]),
                tid: rng.next_u64() as u16,
            }
        }
        _ => {
            let m = gen::gen_msg(&mut rng, &cfg);
            let bytes = gen::encode_with(&m, &cfg, rng.next_u64());
            ops::Init::Bytes(bytes)
        }
    };
    let shape = match &init {
        ops::Init::Bytes(_) => format!(
            "{}{}/{}/{:?}",
            cfg.shape.name(),
            if cfg.header_ptr { "+header-pointer" } else { "" },
            cfg.density,
            cfg.opt
        ),
        ops::Init::Empty { .. } => "synth-empty".into(),
        ops::Init::Query { .. } => "synth-query".into(),
    };
    let mut swarm = swarm;
    if cfg.header_ptr && matches!(init, ops::Init::Bytes(_)) {
        // names of this packet live in the header: a header setter would rewrite them, which is
        // not what any claimed property is about
        for k in 0..5 {
            swarm.w[k] = 0;
        }
    }
    let src = gensrc::GenSource::new(rng.next_u64(), swarm);
    (init, src, shape)
}

pub fn run_lane_n(prop: &str, seed: u64, run: u64) -> RunReport {
    let s = prng::mix(seed, prop, run);
    let focus = focus_for(prop);
    let (init, mut src, shape) = make_run(s, focus);
    let out = exec::execute(&init, &mut src, false, prop);
    let mut stats = out.stats;
    exec::bump(&mut stats, &format!("shape:{}", shape));
    if let crate::ops::Init::Bytes(b) = &init {
        if let Ok(d) = crate::codec::decode(b) {
            if d.layout.max_hops >= 16 {
                exec::bump(&mut stats, "probe:packet_with_16_hop_pointer_chain");
            } else if d.layout.max_hops >= 8 {
                exec::bump(&mut stats, "probe:packet_with_8plus_hop_pointer_chain");
            }
            if b.len() > 8192 {
                exec::bump(&mut stats, "probe:packet_larger_than_8192");
            }
            if b.len() > 65535 - 255 {
                exec::bump(&mut stats, "probe:packet_within_255_of_65535");
            }
            if d.layout.has_pointer {
                let unc = crate::codec::encode_literal(&d.msg).len();
                if unc > 65535 && b.len() <= 65535 {
                    exec::bump(&mut stats, "probe:compressed_packet_that_decompresses_past_65535");
                } else if unc > 8192 && b.len() <= 8192 {
                    exec::bump(&mut stats, "probe:compressed_packet_that_decompresses_past_8192");
                }
            }
        }
    }
    for (i, n) in src.faults_requested.iter().enumerate() {
        if *n > 0 {
            *stats
                .entry(format!("fault_requested:{}", gensrc::FAULT_KINDS[i]))
                .or_insert(0) += n;
        }
    }
    let mut sh = prng::Fnv::new();
    sh.write_str(&shape);
    sh.write_u64(out.shape_hash);
    let errors = stats
        .iter()
        .filter(|(k, _)| k.starts_with("error_returned:") || k.starts_with("fault_fired:"))
        .count();
    let nontrivial = out.rejected.is_none()
        && out.state_changes > 0
        && (focus != Focus::Faults || errors > 0)
        && (focus != Focus::DeleteWalk || stats.contains_key("probe:delete_ok"));
    let scenario = serde_json::to_value(&out.executed).unwrap_or(Value::Null);
    RunReport {
        log_hash: out.log_hash,
        shape_hash: sh.finish(),
        nontrivial,
        steps: out.steps,
        stats,
        violation: out.violation.map(|v| (v, scenario.clone())),
        rejected: out.rejected,
        scenario,
        lane: "N",
    }
}

/// Replays an explicit lane-N scenario.
pub fn replay_lane_n(prop: &str, scenario: &Value, verbose: bool) -> Result<Option<Violation>, String> {
    let sc: ops::Scenario = serde_json::from_value(scenario.clone()).map_err(|e| e.to_string())?;
    let mut src = exec::Scripted::new(sc.ops.clone());
    let out = exec::execute(&sc.init, &mut src, verbose, prop);
    if let Some(r) = out.rejected {
        return Err(format!("scenario rejected: {}", r));
    }
    Ok(out.violation)
}

pub fn violation_json(v: &Violation) -> Value {
    json!({
        "props": v.props,
        "clause": v.clause,
        "op": v.op,
        "key": v.key,
        "signature": v.signature(),
        "detail": v.detail,
        "step": v.step,
    })
}
