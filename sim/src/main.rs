mod battery;
mod codec;
mod exec;
mod findings;
mod gen;
mod gensrc;
mod lane_c;
mod lane_t;
mod lanes;
mod miri;
mod model;
mod ops;
mod prng;
mod shrink;
mod supervisor;

use std::collections::BTreeMap;

fn arg_val(args: &[String], name: &str) -> Option<String> {
    args.iter().position(|a| a == name).and_then(|i| args.get(i + 1).cloned())
}

use lanes::make_run;

fn main() {
    // anyhow captures a backtrace per error when RUST_BACKTRACE is set: ~100x slowdown, no use here
    std::env::set_var("RUST_LIB_BACKTRACE", "0");
    std::env::set_var("RUST_BACKTRACE", "0");
    let args: Vec<String> = std::env::args().collect();
    battery::install_panic_hook();
    let cmd = args.get(1).map(|s| s.as_str()).unwrap_or("");
    match cmd {
        "explore" => {
            let focus = match arg_val(&args, "--focus").as_deref() {
                Some("effect") => gensrc::Focus::Effect,
                Some("faults") => gensrc::Focus::Faults,
                Some("delete") => gensrc::Focus::DeleteWalk,
                _ => gensrc::Focus::View,
            };
            let runs: u64 = arg_val(&args, "--runs").and_then(|s| s.parse().ok()).unwrap_or(1000);
            let seed: u64 = arg_val(&args, "--seed").and_then(|s| s.parse().ok()).unwrap_or(1);
            let mut sigs: BTreeMap<String, (u64, String, String)> = BTreeMap::new();
            let mut rejected = 0u64;
            let mut rej_sample = String::new();
            let mut stats: exec::Stats = Default::default();
            let mut steps = 0usize;
            let t0 = std::time::Instant::now();
            let from: u64 = arg_val(&args, "--from").and_then(|s| s.parse().ok()).unwrap_or(0);
            for run in from..runs {
                let s = prng::mix(seed, "explore", run);
                let (init, mut src, _shape) = make_run(s, focus);
                let out = exec::execute(&init, &mut src, std::env::var("DNSSIM_TRACE").is_ok(), "");
                steps += out.steps;
                if let Some(r) = out.rejected {
                    rejected += 1;
                    if rej_sample.is_empty() {
                        rej_sample = format!("{} :: {}", r, serde_json::to_string(&init).unwrap());
                    }
                    continue;
                }
                for (k, v) in &out.stats {
                    *stats.entry(k.clone()).or_insert(0) += v;
                }
                if let Some(v) = out.violation {
                    let key = format!("{:?} {}", v.props, v.signature());
                    let e = sigs.entry(key).or_insert((0, String::new(), String::new()));
                    e.0 += 1;
                    if e.1.is_empty() || serde_json::to_string(&out.executed).unwrap().len() < e.2.len() {
                        e.1 = v.detail.clone();
                        e.2 = serde_json::to_string(&out.executed).unwrap();
                    }
                }
            }
            println!(
                "runs={} steps={} rejected={} wall={:.2}s",
                runs,
                steps,
                rejected,
                t0.elapsed().as_secs_f64()
            );
            if rejected > 0 {
                println!("REJECT SAMPLE: {}", &rej_sample[..rej_sample.len().min(600)]);
            }
            for (k, v) in &stats {
                println!("  stat {} = {}", k, v);
            }
            for (k, (n, d, sc)) in &sigs {
                println!("\n== {} x{}\n   {}\n   {}", k, n, d, &sc[..sc.len().min(700)]);
            }
        }
        "check" => {
            let prop = arg_val(&args, "--prop").expect("--prop");
            let tier = arg_val(&args, "--tier").unwrap_or_else(|| "quick".into());
            let seed: u64 = arg_val(&args, "--seed").and_then(|s| s.parse().ok()).unwrap_or(1);
            std::process::exit(supervisor::cmd_check(&prop, &tier, seed));
        }
        "worker" => {
            let prop = arg_val(&args, "--prop").expect("--prop");
            let seed: u64 = arg_val(&args, "--seed").and_then(|s| s.parse().ok()).unwrap_or(1);
            let from: u64 = arg_val(&args, "--from").and_then(|s| s.parse().ok()).unwrap_or(0);
            let to: u64 = arg_val(&args, "--to").and_then(|s| s.parse().ok()).unwrap_or(0);
            supervisor::cmd_worker(&prop, seed, from, to, args.iter().any(|a| a == "--hashes"));
        }
        "minimise" => {
            std::process::exit(supervisor::cmd_minimise(&args[2], &args[3]));
        }
        "replay" => {
            std::process::exit(supervisor::cmd_replay(&args[2], args.iter().any(|a| a == "--verbose")));
        }
        "replay-json" => {
            let sc: ops::Scenario = serde_json::from_str(&args[2]).expect("scenario json");
            let mut src = exec::Scripted::new(sc.ops.clone());
            let out = exec::execute(&sc.init, &mut src, true, "");
            println!("{:?}", out.violation);
        }
        _ => {
            eprintln!("usage: dnssim explore|replay-json ...");
            std::process::exit(2);
        }
    }
}

#[cfg(test)]
mod tests {
    use super::*;
    #[test]
    fn names_fit() {
        let mut rng = prng::Rng::new(7);
        for _ in 0..200000 {
            let n = gen::gen_name(&mut rng);
            assert!(n.wire_len() <= 255, "gen_name {}", n.wire_len());
            let n = gen::gen_ldh_name(&mut rng);
            assert!(n.wire_len() <= 253, "gen_ldh_name {}", n.wire_len());
            let t = rng.range(1, 255);
            let n = gen::gen_name_of_len(&mut rng, t);
            assert!(n.wire_len() <= 255 && (n.wire_len() == t || t == 2), "gen_name_of_len {} {}", t, n.wire_len());
        }
    }
}

#[cfg(test)]
mod recogniser_selfcheck {
    use super::*;
    /// The harness's recogniser against the library's parser on generated packets and on seeded
    /// byte-level damage of them. Disagreement is a defect of the trusted base (or of the parser).
    #[test]
    fn recogniser_agrees_with_parser() {
        let mut rng = prng::Rng::new(0xC0DEC);
        let mut checked = 0u32;
        let mut accepted = 0u32;
        for _ in 0..6000 {
            let cfg = gen::gen_packet_cfg(&mut rng, &[20, 40, 20, 10, 3, 1, 6]);
            let m = gen::gen_msg(&mut rng, &cfg);
            let mut bytes = gen::encode_with(&m, &cfg, rng.next_u64());
            if bytes.len() > 20000 {
                continue;
            }
            for round in 0..4 {
                if round > 0 {
                    // damage: flip / overwrite / truncate / extend
                    match rng.below(5) {
                        0 => {
                            let i = rng.below(bytes.len());
                            bytes[i] ^= 1 << rng.below(8);
                        }
                        1 => {
                            let i = rng.below(bytes.len());
                            bytes[i] = *rng.pick(&[0u8, 1, 0x3f, 0x40, 0xc0, 0xff, 0x2e, 0x5c, 41]);
                        }
                        2 => {
                            let n = rng.below(bytes.len().min(8)) + 1;
                            bytes.truncate(bytes.len() - n);
                        }
                        3 => bytes.push(rng.next_u64() as u8),
                        _ => {
                            if bytes.len() > 13 {
                                let i = 4 + rng.below(8);
                                bytes[i] = rng.below(3) as u8;
                            }
                        }
                    }
                    if bytes.len() < 2 {
                        break;
                    }
                }
                let lib = dnssector::DNSSector::new(bytes.clone()).unwrap().parse();
                let mine = codec::decode(&bytes);
                let mine_ok = matches!(&mine, Ok(d) if d.policy.is_empty());
                checked += 1;
                if lib.is_ok() {
                    accepted += 1;
                }
                assert_eq!(
                    lib.is_ok(),
                    mine_ok,
                    "parser {:?} vs recogniser {:?} on {}",
                    lib.as_ref().map(|_| ()).map_err(|e| e.to_string()),
                    mine.as_ref().map(|d| d.policy.clone()).map_err(|e| e.0.clone()),
                    codec::hex(&bytes)
                );
                if let (Ok(p), Ok(d)) = (&lib, &mine) {
                    assert_eq!(p.offset_answers, d.layout.off[1]);
                    assert_eq!(p.offset_nameservers, d.layout.off[2]);
                    assert_eq!(p.offset_additional, d.layout.off[3]);
                    assert_eq!(p.offset_edns, d.layout.off_edns);
                    assert_eq!(p.edns_count, d.layout.edns_count);
                }
            }
        }
        assert!(checked > 10000 && accepted > 5000, "{} {}", checked, accepted);
    }
}
