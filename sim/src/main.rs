fn main(){ let p = dnssector::ParsedPacket::empty(); println!("{}", serde_json::json!({"len": p.packet().len()})); }
