//! Operation alphabet and scenarios (explicit, replayable).

use crate::model::*;
use serde::{Deserialize, Serialize};

pub const W_QUESTION: u8 = 0;
pub const W_ANSWER: u8 = 1;
pub const W_NAMESERVERS: u8 = 2;
pub const W_ADDITIONAL: u8 = 3;
pub const W_ADDITIONAL_OPT: u8 = 4;
pub const W_EDNS: u8 = 5;
pub const WALK_NAMES: [&str; 6] = [
    "question",
    "answer",
    "nameservers",
    "additional",
    "additional+opt",
    "edns",
];

pub fn walk_section(kind: u8) -> usize {
    match kind {
        W_QUESTION => SEC_Q,
        W_ANSWER => SEC_AN,
        W_NAMESERVERS => SEC_NS,
        _ => SEC_AR,
    }
}

#[derive(Clone, Debug, PartialEq, Eq, Serialize, Deserialize)]
pub enum CurOp {
    Next,
    NextOpt,
    /// raw wire name handed to set_raw_name (may be malformed when injected as a fault)
    SetRawName(#[serde(with = "hexbytes")] Vec<u8>),
    SetTtl(u32),
    /// 4 or 16 bytes
    SetIp(#[serde(with = "hexbytes")] Vec<u8>),
    Delete,
    Uncompress,
}

impl CurOp {
    pub fn kind(&self) -> &'static str {
        match self {
            CurOp::Next => "next",
            CurOp::NextOpt => "next_including_opt",
            CurOp::SetRawName(_) => "set_raw_name",
            CurOp::SetTtl(_) => "set_rr_ttl",
            CurOp::SetIp(_) => "set_rr_ip",
            CurOp::Delete => "delete",
            CurOp::Uncompress => "cursor_uncompress",
        }
    }
}

#[derive(Clone, Debug, PartialEq, Eq, Serialize, Deserialize)]
pub enum Op {
    SetTid(u16),
    SetFlags(u32),
    SetRcode(u8),
    SetOpcode(u8),
    SetResponse(bool),
    /// native insert_rr with a record built by RR::new from (text name, ttl, IN, type, wire rdata)
    InsertRR {
        section: usize,
        name_text: String,
        rtype: u16,
        ttl: u32,
        #[serde(with = "hexbytes")]
        rdata: Vec<u8>,
        /// record class (1 IN, 3 CH, 4 HS, 254 NONE, 255 ANY); absent = IN
        #[serde(default)]
        class: u16,
    },
    /// native insert_rr(Question, RR::new_question(..))
    InsertQuestion { name_text: String, qtype: u16 },
    InsertText { section: usize, text: String },
    Rename {
        #[serde(with = "hexbytes")]
        target: Vec<u8>,
        #[serde(with = "hexbytes")]
        source: Vec<u8>,
        suffix: bool,
    },
    Recompute,
    /// 0 question(), 1 question_raw0(), 2 question_raw(), 3 qtype_qclass()
    Poke(u8),
    Walk { kind: u8, steps: Vec<CurOp> },
}

impl Op {
    pub fn kind(&self) -> &'static str {
        match self {
            Op::SetTid(_) => "set_tid",
            Op::SetFlags(_) => "set_flags",
            Op::SetRcode(_) => "set_rcode",
            Op::SetOpcode(_) => "set_opcode",
            Op::SetResponse(_) => "set_response",
            Op::InsertRR { .. } => "insert_rr",
            Op::InsertQuestion { .. } => "insert_question",
            Op::InsertText { .. } => "insert_rr_from_string",
            Op::Rename { .. } => "rename",
            Op::Recompute => "recompute",
            Op::Poke(_) => "poke_question_cache",
            Op::Walk { .. } => "walk",
        }
    }
}

#[derive(Clone, Debug, PartialEq, Eq, Serialize, Deserialize)]
pub enum Init {
    /// parse these bytes
    Bytes(#[serde(with = "hexbytes")] Vec<u8>),
    /// ParsedPacket::empty() followed by set_tid(tid)
    Empty { tid: u16 },
    /// gen::query(name, type, IN) followed by set_tid(tid)
    Query { name_text: String, qtype: u16, tid: u16 },
}

#[derive(Clone, Debug, PartialEq, Eq, Serialize, Deserialize)]
pub struct Scenario {
    pub init: Init,
    pub ops: Vec<Op>,
}

pub mod hexbytes {
    use serde::{Deserialize, Deserializer, Serializer};
    pub fn serialize<S: Serializer>(v: &Vec<u8>, s: S) -> Result<S::Ok, S::Error> {
        s.serialize_str(&crate::codec::hex(v))
    }
    pub fn deserialize<'de, D: Deserializer<'de>>(d: D) -> Result<Vec<u8>, D::Error> {
        let s = String::deserialize(d)?;
        crate::codec::unhex(&s).ok_or_else(|| serde::de::Error::custom("bad hex"))
    }
}
