//! Lane M driver: runs /verif/miri under `cargo +nightly miri run` with Miri's seeded scheduler.

use serde_json::{json, Value};
use std::process::Command;
use std::time::Instant;

pub const MIRI_FLAGS: &str = "-Zmiri-disable-stacked-borrows -Zmiri-ignore-leaks -Zmiri-preemption-rate=0.1";

pub struct MiriOutcome {
    pub executions: u64,
    pub wall_s: f64,
    pub note: String,
    /// (workload seed, failing miri seed if known, classification, excerpt)
    pub failure: Option<(u64, Option<u64>, String, String)>,
}

fn workload_for(prop: &str) -> &'static str {
    match prop {
        "C15" => "c15",
        "C16" => "c16",
        _ => "c17",
    }
}

fn run_miri(workload: &str, wseed: u64, from: u64, to: u64) -> Result<(bool, String), String> {
    let root = crate::supervisor::root();
    let flags = if to - from == 1 {
        format!("{} -Zmiri-seed={}", MIRI_FLAGS, from)
    } else {
        format!("{} -Zmiri-many-seeds={}..{}", MIRI_FLAGS, from, to)
    };
    let out = Command::new("cargo")
        .arg("+nightly")
        .arg("miri")
        .arg("run")
        .arg("--offline")
        .arg("--release")
        .arg("--quiet")
        .arg("--manifest-path")
        .arg(format!("{}/miri/Cargo.toml", root))
        .arg("--")
        .arg(workload)
        .arg(wseed.to_string())
        .env("MIRIFLAGS", flags)
        .env("CARGO_NET_OFFLINE", "true")
        .env("RUST_BACKTRACE", "0")
        .env("CARGO_TARGET_DIR", format!("{}/miri/target", root))
        .output()
        .map_err(|e| format!("cannot run cargo +nightly miri: {}", e))?;
    let mut text = String::from_utf8_lossy(&out.stderr).into_owned();
    text.push_str(&String::from_utf8_lossy(&out.stdout));
    Ok((out.status.success(), text))
}

/// Classifies Miri's output. Returns None when the failure is not a verdict on the library
/// (unsupported operation, build problem, harness assertion).
fn classify(prop: &str, text: &str) -> Option<(String, String)> {
    if let Some(l) = text.lines().find(|l| l.contains("LANE-M VIOLATION")) {
        if l.contains(&format!("property={}", prop)) {
            return Some(("wrong-result".into(), l.trim().chars().take(400).collect()));
        }
    }
    if let Some(pos) = text.find("Undefined Behavior:") {
        let line: String = text[pos..].lines().next().unwrap_or("").chars().take(300).collect();
        let kind = if line.contains("Data race") {
            "data-race"
        } else if line.contains("out-of-bounds") || line.contains("dangling") {
            "out-of-bounds"
        } else {
            "undefined-behavior"
        };
        return Some((kind.into(), line));
    }
    None
}

fn failing_seed(text: &str) -> Option<u64> {
    text.lines()
        .find(|l| l.contains("FAILING SEED:"))
        .and_then(|l| l.split(':').nth(1))
        .and_then(|s| s.trim().parse().ok())
}

pub fn miri_slice(prop: &str, tier: &str, seed: u64) -> MiriOutcome {
    let t0 = Instant::now();
    if std::env::var("DNSSIM_NO_MIRI").is_ok() {
        return MiriOutcome {
            executions: 0,
            wall_s: 0.0,
            note: "skipped (DNSSIM_NO_MIRI set)".into(),
            failure: None,
        };
    }
    let (wseeds, mseeds): (u64, u64) = match (tier, prop) {
        ("quick", "C15") => (4, 16),
        ("quick", _) => (2, 16),
        (_, "C15") => (64, 32),
        (_, _) => (24, 64),
    };
    let workload = workload_for(prop);
    let mut executions = 0u64;
    let mut note = String::new();
    for w in 0..wseeds {
        let wseed = crate::prng::mix(seed, "miri", w) % 1_000_000;
        match run_miri(workload, wseed, 0, mseeds) {
            Err(e) => {
                note = format!("miri unavailable: {}", e);
                break;
            }
            Ok((true, _)) => executions += mseeds,
            Ok((false, text)) => {
                if let Some((kind, excerpt)) = classify(prop, &text) {
                    return MiriOutcome {
                        executions,
                        wall_s: t0.elapsed().as_secs_f64(),
                        note,
                        failure: Some((wseed, failing_seed(&text), kind, excerpt)),
                    };
                }
                let why: String = text
                    .lines()
                    .find(|l| l.starts_with("error"))
                    .unwrap_or("unknown failure")
                    .chars()
                    .take(200)
                    .collect();
                note = format!("miri run not usable as a verdict ({}); lane M skipped", why);
                break;
            }
        }
    }
    MiriOutcome {
        executions,
        wall_s: t0.elapsed().as_secs_f64(),
        note,
        failure: None,
    }
}

pub fn scenario(prop: &str, wseed: u64, mseed: Option<u64>, mseeds_to: u64) -> Value {
    json!({"miri_workload": workload_for(prop), "workload_seed": wseed, "miri_seed": mseed,
           "miri_seed_range_end": mseeds_to, "miri_flags": MIRI_FLAGS})
}

/// Replays a lane-M scenario: the same Miri seed and workload seed reproduce the same execution.
pub fn replay(prop: &str, sc: &Value) -> Result<Option<crate::exec::Violation>, String> {
    let workload = sc["miri_workload"].as_str().unwrap_or("c16").to_string();
    let wseed = sc["workload_seed"].as_u64().unwrap_or(1);
    let (from, to) = match sc["miri_seed"].as_u64() {
        Some(s) => (s, s + 1),
        None => (0, sc["miri_seed_range_end"].as_u64().unwrap_or(16)),
    };
    let (ok, text) = run_miri(&workload, wseed, from, to)?;
    if ok {
        return Ok(None);
    }
    match classify(prop, &text) {
        Some((kind, excerpt)) => Ok(Some(violation(prop, &kind, &excerpt))),
        None => Err(format!(
            "miri failed without a verdict: {}",
            text.lines().find(|l| l.starts_with("error")).unwrap_or("")
        )),
    }
}

pub fn violation(prop: &str, kind: &str, excerpt: &str) -> crate::exec::Violation {
    let p: &'static str = match prop {
        "C15" => "C15",
        "C16" => "C16",
        _ => "C17",
    };
    crate::exec::Violation {
        props: vec![p],
        clause: format!("miri-{}", kind),
        op: workload_for(prop).into(),
        key: String::new(),
        detail: format!("under Miri's seeded preemptive scheduler: {}", excerpt),
        step: 0,
    }
}
