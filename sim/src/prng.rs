//! One integer decides everything: SplitMix64 for seed derivation, xoshiro256** per run.
//! No `rand` crate, no clocks, no addresses.

#[inline]
pub fn splitmix64(state: &mut u64) -> u64 {
    *state = state.wrapping_add(0x9E37_79B9_7F4A_7C15);
    let mut z = *state;
    z = (z ^ (z >> 30)).wrapping_mul(0xBF58_476D_1CE4_E5B9);
    z = (z ^ (z >> 27)).wrapping_mul(0x94D0_49BB_1331_11EB);
    z ^ (z >> 31)
}

/// Mix (VERIF_SEED, lane/property tag, run index) into one per-run seed.
pub fn mix(seed: u64, tag: &str, run: u64) -> u64 {
    let mut s = seed ^ 0xD1B5_4A32_D192_ED03;
    let mut h = splitmix64(&mut s);
    for b in tag.bytes() {
        s ^= (b as u64).wrapping_mul(0x100_0000_01B3);
        h ^= splitmix64(&mut s);
    }
    s ^= run.wrapping_mul(0x9E37_79B9_7F4A_7C15);
    h ^ splitmix64(&mut s)
}

#[derive(Clone, Debug)]
pub struct Rng {
    s: [u64; 4],
}

impl Rng {
    pub fn new(seed: u64) -> Self {
        let mut sm = seed;
        let s = [
            splitmix64(&mut sm),
            splitmix64(&mut sm),
            splitmix64(&mut sm),
            splitmix64(&mut sm),
        ];
        Rng { s }
    }

    #[inline]
    pub fn next_u64(&mut self) -> u64 {
        let result = self.s[1].wrapping_mul(5).rotate_left(7).wrapping_mul(9);
        let t = self.s[1] << 17;
        self.s[2] ^= self.s[0];
        self.s[3] ^= self.s[1];
        self.s[1] ^= self.s[2];
        self.s[0] ^= self.s[3];
        self.s[2] ^= t;
        self.s[3] = self.s[3].rotate_left(45);
        result
    }

    /// Uniform in 0..n (n > 0).
    #[inline]
    pub fn below(&mut self, n: usize) -> usize {
        debug_assert!(n > 0);
        ((self.next_u64() >> 11) % (n as u64)) as usize
    }

    /// Uniform in lo..=hi.
    #[inline]
    pub fn range(&mut self, lo: usize, hi: usize) -> usize {
        lo + self.below(hi - lo + 1)
    }

    #[inline]
    pub fn chance(&mut self, num: usize, den: usize) -> bool {
        self.below(den) < num
    }

    #[inline]
    pub fn bool(&mut self) -> bool {
        self.next_u64() & 1 == 1
    }

    pub fn pick<'a, T>(&mut self, xs: &'a [T]) -> &'a T {
        &xs[self.below(xs.len())]
    }

    /// Weighted pick: returns the index.
    pub fn weighted(&mut self, weights: &[u32]) -> usize {
        let total: u64 = weights.iter().map(|&w| w as u64).sum();
        if total == 0 {
            return 0;
        }
        let mut x = (self.next_u64() >> 11) % total;
        for (i, &w) in weights.iter().enumerate() {
            if x < w as u64 {
                return i;
            }
            x -= w as u64;
        }
        weights.len() - 1
    }

    pub fn bytes(&mut self, n: usize) -> Vec<u8> {
        let mut v = Vec::with_capacity(n);
        while v.len() < n {
            let x = self.next_u64().to_le_bytes();
            let take = (n - v.len()).min(8);
            v.extend_from_slice(&x[..take]);
        }
        v
    }

    pub fn fork(&mut self) -> Rng {
        Rng::new(self.next_u64())
    }
}

/// FNV-1a 64-bit, used for event-log hashes (stable across processes).
#[derive(Clone, Copy)]
pub struct Fnv(pub u64);

impl Default for Fnv {
    fn default() -> Self {
        Fnv(0xcbf2_9ce4_8422_2325)
    }
}

impl Fnv {
    pub fn new() -> Self {
        Self::default()
    }
    #[inline]
    pub fn write(&mut self, bytes: &[u8]) {
        for &b in bytes {
            self.0 ^= b as u64;
            self.0 = self.0.wrapping_mul(0x100_0000_01b3);
        }
    }
    #[inline]
    pub fn write_u64(&mut self, v: u64) {
        self.write(&v.to_le_bytes());
    }
    pub fn write_str(&mut self, s: &str) {
        self.write(s.as_bytes());
        self.write(&[0xff]);
    }
    pub fn finish(&self) -> u64 {
        self.0
    }
}

pub fn fnv_bytes(b: &[u8]) -> u64 {
    let mut f = Fnv::new();
    f.write(b);
    f.finish()
}
