//! Known findings (committed file, never written at run time).

use serde::Deserialize;

#[derive(Clone, Debug, Deserialize)]
pub struct Finding {
    /// properties this finding is a violation of
    pub properties: Vec<String>,
    /// lane: "N" (native histories), "C" (C table), "T", "M"
    #[serde(default)]
    pub lane: String,
    /// violation signature; a trailing '*' matches any suffix
    pub signature: String,
    /// what fails, in words (printed on the KNOWN-FINDING line)
    pub what: String,
}

#[derive(Clone, Debug, Deserialize, Default)]
pub struct KnownFindings {
    #[serde(default)]
    pub findings: Vec<Finding>,
    #[serde(default)]
    pub fixed: Vec<String>,
}

impl KnownFindings {
    pub fn load(path: &str) -> Result<KnownFindings, String> {
        match std::fs::read_to_string(path) {
            Ok(s) => serde_json::from_str(&s).map_err(|e| format!("{}: {}", path, e)),
            Err(e) => Err(format!("{}: {}", path, e)),
        }
    }

    pub fn matches(&self, prop: &str, lane: &str, signature: &str) -> Option<usize> {
        self.findings.iter().position(|f| {
            f.properties.iter().any(|p| p == prop)
                && (f.lane.is_empty() || f.lane == lane)
                && if let Some(prefix) = f.signature.strip_suffix('*') {
                    signature.starts_with(prefix)
                } else {
                    f.signature == signature
                }
        })
    }
}
