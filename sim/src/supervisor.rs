//! Supervisor / worker processes, evidence, known findings, minimisation and replay.

use crate::exec::Stats;
use crate::findings::KnownFindings;
use crate::lanes::{self, RunReport};
use crate::ops;
use crate::shrink;
use serde_json::{json, Value};
use std::collections::{BTreeMap, BTreeSet};
use std::io::{BufRead, BufReader, Write};
use std::process::{Command, Stdio};
use std::time::Instant;

pub fn root() -> String {
    std::env::var("DNSSIM_ROOT").unwrap_or_else(|_| "/verif".to_string())
}

pub fn run_prop(prop: &str, seed: u64, run: u64) -> RunReport {
    match prop {
        "C08" | "C09" | "C10" | "C11" => lanes::run_lane_n(prop, seed, run),
        "C15" => crate::lane_c::run_lane_c(seed, run),
        "C16" => crate::lane_t::run_c16(seed, run),
        "C17" => crate::lane_t::run_c17(seed, run),
        _ => panic!("no lane for property {}", prop),
    }
}

pub fn prop_static(prop: &str) -> &'static str {
    match prop {
        "C08" => "C08",
        "C09" => "C09",
        "C10" => "C10",
        "C11" => "C11",
        "C15" => "C15",
        "C16" => "C16",
        _ => "C17",
    }
}

pub fn level_for(prop: &str) -> &'static str {
    match prop {
        "C10" => "fault_enumeration",
        _ => "exploration",
    }
}

fn default_runs(prop: &str, tier: &str) -> u64 {
    let quick = tier == "quick";
    match prop {
        "C08" | "C09" | "C10" => {
            if quick {
                80_000
            } else {
                6_000_000
            }
        }
        "C11" => {
            if quick {
                100_000
            } else {
                10_000_000
            }
        }
        "C15" => {
            if quick {
                60_000
            } else {
                3_000_000
            }
        }
        "C16" => {
            if quick {
                40_000
            } else {
                2_000_000
            }
        }
        "C17" => {
            if quick {
                20_000
            } else {
                1_000_000
            }
        }
        _ => 1000,
    }
}

// -------------------------------------------------------------------------------------------
// worker
// -------------------------------------------------------------------------------------------

pub fn cmd_worker(prop: &str, seed: u64, from: u64, to: u64, hashes: bool) {
    let kf = KnownFindings::load(&format!("{}/known_findings.json", root())).unwrap_or_default();
    let out = std::io::stdout();
    let mut out = out.lock();
    let mut stats: Stats = Stats::new();
    let mut distinct: BTreeSet<u64> = BTreeSet::new();
    let mut steps = 0u64;
    let mut nontrivial = 0u64;
    let mut rejected = 0u64;
    let mut samples = 0;
    let mut sig_emitted: BTreeMap<String, u32> = BTreeMap::new();
    let mut total_v = 0u32;
    let mut known_hits: BTreeMap<usize, u64> = BTreeMap::new();
    let mut other_prop = 0u64;
    let mut unclaimed = 0u64;
    for run in from..to {
        let _ = writeln!(out, "B {}", run);
        let _ = out.flush();
        let rep = run_prop(prop, seed, run);
        steps += rep.steps as u64;
        if hashes {
            let _ = writeln!(out, "H {} {:016x}", run, rep.log_hash);
        }
        if let Some(r) = &rep.rejected {
            rejected += 1;
            if rejected <= 2 {
                let _ = writeln!(out, "J {}", json!({"run": run, "why": r}));
            }
            continue;
        }
        for (k, v) in &rep.stats {
            *stats.entry(k.clone()).or_insert(0) += v;
        }
        if rep.nontrivial {
            nontrivial += 1;
            distinct.insert(rep.shape_hash);
            if samples < 2 && from == 0 {
                samples += 1;
                let _ = writeln!(out, "X {}", json!({"run": run, "lane": rep.lane, "scenario": rep.scenario}));
            }
        }
        if let Some((v, sc)) = rep.violation {
            if v.has(prop) {
                let sig = v.signature();
                if let Some(i) = kf.matches(prop, rep.lane, &sig) {
                    *known_hits.entry(i).or_insert(0) += 1;
                } else {
                    let n = sig_emitted.entry(sig.clone()).or_insert(0);
                    *n += 1;
                    total_v += 1;
                    if *n <= 2 && total_v <= 40 {
                        let _ = writeln!(
                            out,
                            "V {}",
                            json!({"run": run, "seed": seed, "lane": rep.lane, "worker_from": from,
                                   "violation": lanes::violation_json(&v), "scenario": sc})
                        );
                    } else {
                        let _ = writeln!(out, "v {} {}", run, sig);
                    }
                }
            } else if v.props.is_empty() {
                unclaimed += 1;
            } else {
                other_prop += 1;
            }
        }
    }
    let d: Vec<String> = distinct.iter().map(|h| format!("{:x}", h)).collect();
    let _ = writeln!(
        out,
        "S {}",
        json!({"stats": stats, "steps": steps, "nontrivial": nontrivial, "rejected": rejected,
               "known_hits": known_hits.iter().map(|(k, v)| (k.to_string(), *v)).collect::<BTreeMap<String,u64>>(),
               "other_property_violations": other_prop, "ended_by_unclaimed": unclaimed,
               "distinct": d})
    );
    let _ = out.flush();
}

// -------------------------------------------------------------------------------------------
// supervisor
// -------------------------------------------------------------------------------------------

#[derive(Default)]
pub struct Agg {
    pub stats: Stats,
    pub steps: u64,
    pub nontrivial: u64,
    pub rejected: u64,
    pub distinct: BTreeSet<u64>,
    pub known_hits: BTreeMap<usize, u64>,
    pub other_prop: u64,
    pub unclaimed: u64,
    pub violations: Vec<Value>,
    pub violation_count: u64,
    pub violation_sigs: BTreeMap<String, u64>,
    pub violation_runs: BTreeSet<u64>,
    pub samples: Vec<Value>,
    pub hashes: BTreeMap<u64, u64>,
    pub deaths: Vec<(u64, String)>,
    pub rejects: Vec<Value>,
    pub executed: u64,
}

/// Runs `[from, to)` split over `workers` child processes and aggregates their reports.
pub fn run_batch(prop: &str, seed: u64, from: u64, to: u64, workers: u64, hashes: bool) -> Result<Agg, String> {
    let exe = std::env::current_exe().map_err(|e| e.to_string())?;
    run_batch_exe(&exe, prop, seed, from, to, workers, hashes)
}

/// Same, with the worker binary given (the release-arithmetic build for the second slice).
pub fn run_batch_exe(
    exe: &std::path::Path,
    prop: &str,
    seed: u64,
    from: u64,
    to: u64,
    workers: u64,
    hashes: bool,
) -> Result<Agg, String> {
    run_batch_env(exe, prop, seed, from, to, workers, hashes, &[])
}

/// Same, with extra environment variables for the workers (lane K preloads the clock seam).
#[allow(clippy::too_many_arguments)]
pub fn run_batch_env(
    exe: &std::path::Path,
    prop: &str,
    seed: u64,
    from: u64,
    to: u64,
    workers: u64,
    hashes: bool,
    envs: &[(String, String)],
) -> Result<Agg, String> {
    let n = to - from;
    let workers = workers.max(1).min(n.max(1));
    let chunk = (n + workers - 1) / workers;
    let mut handles = Vec::new();
    for w in 0..workers {
        let a = from + w * chunk;
        let b = (a + chunk).min(to);
        if a >= b {
            continue;
        }
        let mut cmd = Command::new(exe);
        cmd.arg("worker")
            .arg("--prop")
            .arg(prop)
            .arg("--seed")
            .arg(seed.to_string())
            .arg("--from")
            .arg(a.to_string())
            .arg("--to")
            .arg(b.to_string());
        if hashes {
            cmd.arg("--hashes");
        }
        for (k, v) in envs {
            cmd.env(k, v);
        }
        cmd.stdout(Stdio::piped()).stderr(Stdio::piped()).stdin(Stdio::null());
        let mut child = cmd.spawn().map_err(|e| format!("spawn worker: {}", e))?;
        let stdout = child.stdout.take().unwrap();
        let stderr = child.stderr.take().unwrap();
        let child = std::sync::Arc::new(std::sync::Mutex::new(child));
        let last_activity = std::sync::Arc::new(std::sync::atomic::AtomicU64::new(now_secs()));
        let done_flag = std::sync::Arc::new(std::sync::atomic::AtomicBool::new(false));
        let hung_flag = std::sync::Arc::new(std::sync::atomic::AtomicBool::new(false));
        {
            // watchdog: a worker that reports nothing for HANG_SECS is stuck inside one run
            let child = child.clone();
            let last_activity = last_activity.clone();
            let done_flag = done_flag.clone();
            let hung_flag = hung_flag.clone();
            std::thread::spawn(move || loop {
                std::thread::sleep(std::time::Duration::from_millis(500));
                if done_flag.load(std::sync::atomic::Ordering::SeqCst) {
                    break;
                }
                let idle = now_secs().saturating_sub(last_activity.load(std::sync::atomic::Ordering::SeqCst));
                if idle > hang_secs() {
                    hung_flag.store(true, std::sync::atomic::Ordering::SeqCst);
                    if let Ok(mut c) = child.lock() {
                        let _ = c.kill();
                    }
                    break;
                }
            });
        }
        let h = std::thread::spawn(move || {
            let errh = std::thread::spawn(move || {
                let mut s = String::new();
                let mut last_marker = String::new();
                let mut r = BufReader::new(stderr);
                let mut line = String::new();
                while let Ok(n) = r.read_line(&mut line) {
                    if n == 0 {
                        break;
                    }
                    if line.starts_with("C ") || line.starts_with("T ") {
                        // lane C: "C <run> <step> <entry>" names the table call in flight
                        last_marker = line.clone();
                    } else if s.len() < 4000 {
                        s.push_str(&line);
                    }
                    line.clear();
                }
                s.push_str(&last_marker);
                s
            });
            let mut agg = Agg::default();
            let mut last_begun: Option<u64> = None;
            let mut finished = false;
            let r = BufReader::new(stdout);
            for line in r.lines() {
                let line = match line {
                    Ok(l) => l,
                    Err(_) => break,
                };
                last_activity.store(now_secs(), std::sync::atomic::Ordering::SeqCst);
                let (tag, rest) = match line.split_once(' ') {
                    Some(x) => x,
                    None => continue,
                };
                match tag {
                    "B" => {
                        last_begun = rest.parse().ok();
                        agg.executed += 1;
                    }
                    "H" => {
                        if let Some((r, h)) = rest.split_once(' ') {
                            if let (Ok(r), Ok(h)) = (r.parse::<u64>(), u64::from_str_radix(h, 16)) {
                                agg.hashes.insert(r, h);
                            }
                        }
                    }
                    "V" => {
                        if let Ok(v) = serde_json::from_str::<Value>(rest) {
                            let sig = v["violation"]["signature"].as_str().unwrap_or("").to_string();
                            *agg.violation_sigs.entry(sig).or_insert(0) += 1;
                            agg.violation_count += 1;
                            if let Some(r) = v["run"].as_u64() {
                                agg.violation_runs.insert(r);
                            }
                            agg.violations.push(v);
                        }
                    }
                    "v" => {
                        if let Some((r, sig)) = rest.split_once(' ') {
                            *agg.violation_sigs.entry(sig.to_string()).or_insert(0) += 1;
                            if let Ok(r) = r.parse::<u64>() {
                                agg.violation_runs.insert(r);
                            }
                        }
                        agg.violation_count += 1;
                    }
                    "X" => {
                        if let Ok(v) = serde_json::from_str::<Value>(rest) {
                            agg.samples.push(v);
                        }
                    }
                    "J" => {
                        if let Ok(v) = serde_json::from_str::<Value>(rest) {
                            agg.rejects.push(v);
                        }
                    }
                    "S" => {
                        finished = true;
                        if let Ok(v) = serde_json::from_str::<Value>(rest) {
                            if let Some(o) = v["stats"].as_object() {
                                for (k, n) in o {
                                    *agg.stats.entry(k.clone()).or_insert(0) += n.as_u64().unwrap_or(0);
                                }
                            }
                            agg.steps += v["steps"].as_u64().unwrap_or(0);
                            agg.nontrivial += v["nontrivial"].as_u64().unwrap_or(0);
                            agg.rejected += v["rejected"].as_u64().unwrap_or(0);
                            agg.other_prop += v["other_property_violations"].as_u64().unwrap_or(0);
                            agg.unclaimed += v["ended_by_unclaimed"].as_u64().unwrap_or(0);
                            if let Some(o) = v["known_hits"].as_object() {
                                for (k, n) in o {
                                    if let Ok(i) = k.parse::<usize>() {
                                        *agg.known_hits.entry(i).or_insert(0) += n.as_u64().unwrap_or(0);
                                    }
                                }
                            }
                            if let Some(a) = v["distinct"].as_array() {
                                for h in a {
                                    if let Some(h) = h.as_str().and_then(|s| u64::from_str_radix(s, 16).ok()) {
                                        agg.distinct.insert(h);
                                    }
                                }
                            }
                        }
                    }
                    _ => {}
                }
            }
            done_flag.store(true, std::sync::atomic::Ordering::SeqCst);
            let status = child.lock().map(|mut c| c.wait().map(|s| s.to_string())).ok();
            let err = errh.join().unwrap_or_default();
            if !finished {
                let hung = hung_flag.load(std::sync::atomic::Ordering::SeqCst);
                let why = format!(
                    "{}worker for runs {}..{} {} ({:?}) while run {:?} was in flight; stderr: {}",
                    if hung { "HUNG: " } else { "" },
                    a,
                    b,
                    if hung { "made no progress and was killed" } else { "died" },
                    status,
                    last_begun,
                    err.chars().take(600).collect::<String>()
                );
                agg.deaths.push((last_begun.unwrap_or(a), why));
            }
            agg
        });
        handles.push(h);
    }
    let mut total = Agg::default();
    for h in handles {
        let a = h.join().map_err(|_| "reader thread panicked".to_string())?;
        merge(&mut total, a);
    }
    Ok(total)
}

pub const CLOCK_SKEW_SECS: i64 = 400 * 86400 + 12345;

fn clock_envs() -> Option<Vec<(String, String)>> {
    let so = env!("DNSSIM_CLOCKSKEW_SO");
    if so.is_empty() || !std::path::Path::new(so).exists() {
        return None;
    }
    Some(vec![
        ("LD_PRELOAD".to_string(), so.to_string()),
        ("DNSSIM_CLOCK_SKEW".to_string(), CLOCK_SKEW_SECS.to_string()),
    ])
}

/// Lane K: the same runs under the real wall clock and under a wall clock shifted by 400 days.
/// Returns (runs compared, first run whose event log differs).
pub fn clock_slice(prop: &str, seed: u64, from: u64, to: u64, workers: u64) -> Result<(u64, Option<u64>), String> {
    let envs = match clock_envs() {
        Some(e) => e,
        None => return Err("clock seam not built".into()),
    };
    let exe = std::env::current_exe().map_err(|e| e.to_string())?;
    let a = run_batch_env(&exe, prop, seed, from, to, workers, true, &[])?;
    let b = run_batch_env(&exe, prop, seed, from, to, workers, true, &envs)?;
    if !a.deaths.is_empty() || !b.deaths.is_empty() {
        return Err("a worker died during the clock slice".into());
    }
    let bad = a.hashes.iter().find(|(r, h)| b.hashes.get(r) != Some(h)).map(|(r, _)| *r);
    Ok((a.hashes.len() as u64, bad))
}

/// Event-log hash of `run` when executed after runs from..run in one process, and alone.
/// For C16 the question is instead whether `run` reports a violation after its predecessors
/// (encoded as hashes 1 / 0 against 0 alone).
pub fn process_history_pair(prop: &str, seed: u64, from: u64, run: u64) -> Option<(u64, u64)> {
    let seq = run_batch(prop, seed, from, run + 1, 1, true).ok()?;
    let alone = run_batch(prop, seed, run, run + 1, 1, true).ok()?;
    if prop != "C17" {
        return Some((
            seq.violation_runs.contains(&run) as u64,
            alone.violation_runs.contains(&run) as u64,
        ));
    }
    Some((*seq.hashes.get(&run)?, *alone.hashes.get(&run)?))
}

/// Smallest power-of-two window of predecessors that still changes the run's behaviour; the
/// window never reaches further back than `worker_from`, the first run the original worker
/// process executed, and that exact window is tried last (it is what actually happened).
pub fn process_history_window(prop: &str, seed: u64, run: u64, worker_from: u64) -> Option<(u64, u64, u64)> {
    let floor = worker_from.min(run);
    let mut back = 1u64;
    loop {
        let from = run.saturating_sub(back).max(floor);
        if let Some((a, b)) = process_history_pair(prop, seed, from, run) {
            if a != b {
                return Some((from, a, b));
            }
        }
        if from == floor {
            return None;
        }
        back *= 2;
    }
}

fn now_secs() -> u64 {
    std::time::SystemTime::now()
        .duration_since(std::time::UNIX_EPOCH)
        .map(|d| d.as_secs())
        .unwrap_or(0)
}

/// Seconds without any report after which a worker is considered stuck inside one run. (Wall
/// clock is read by the supervisor only, never by anything that is logged or hashed.)
fn hang_secs() -> u64 {
    std::env::var("DNSSIM_HANG_SECS").ok().and_then(|s| s.parse().ok()).unwrap_or(90)
}

/// The last "<tag><run> <step> ..." marker a worker wrote to stderr before it died.
pub fn marker_line(why: &str, tag: &str) -> Option<String> {
    why.lines()
        .filter_map(|l| {
            let l = l.trim();
            if l.starts_with(tag) {
                Some(l.to_string())
            } else {
                l.find(&format!("stderr: {}", tag)).map(|i| l[i + 8..].to_string())
            }
        })
        .last()
}

pub fn merge(total: &mut Agg, a: Agg) {
    for (k, v) in a.stats {
        *total.stats.entry(k).or_insert(0) += v;
    }
    total.steps += a.steps;
    total.nontrivial += a.nontrivial;
    total.rejected += a.rejected;
    total.distinct.extend(a.distinct);
    for (k, v) in a.known_hits {
        *total.known_hits.entry(k).or_insert(0) += v;
    }
    total.other_prop += a.other_prop;
    total.unclaimed += a.unclaimed;
    total.violations.extend(a.violations);
    total.violation_count += a.violation_count;
    total.violation_runs.extend(a.violation_runs);
    for (k, v) in a.violation_sigs {
        *total.violation_sigs.entry(k).or_insert(0) += v;
    }
    total.samples.extend(a.samples);
    total.hashes.extend(a.hashes);
    total.deaths.extend(a.deaths);
    total.rejects.extend(a.rejects);
    total.executed += a.executed;
}

pub fn ncpu() -> u64 {
    std::env::var("DNSSIM_WORKERS")
        .ok()
        .and_then(|s| s.parse().ok())
        .unwrap_or_else(|| std::thread::available_parallelism().map(|n| n.get() as u64).unwrap_or(4))
}

fn write_replay(prop: &str, v: &Value, minimised: Option<&Value>, candidates: usize) -> Result<String, String> {
    let dir = format!("{}/replays", root());
    std::fs::create_dir_all(&dir).map_err(|e| e.to_string())?;
    let sig = v["violation"]["signature"].as_str().unwrap_or("");
    let mut h = crate::prng::Fnv::new();
    h.write_str(sig);
    h.write_str(&v["scenario"].to_string());
    let path = format!("{}/{}-{:016x}.json", dir, prop, h.finish());
    let doc = json!({
        "property": prop,
        "lane": v["lane"],
        "signature": sig,
        "violation": v["violation"],
        "verif_seed": v["seed"],
        "run_index": v["run"],
        "scenario": minimised.unwrap_or(&v["scenario"]),
        "original_scenario": v["scenario"],
        "minimiser_candidates": candidates,
        "build": v.get("build").cloned().unwrap_or(json!("checked")),
        "replay": format!("./check {} --replay {}", prop, path),
    });
    std::fs::write(&path, serde_json::to_string_pretty(&doc).unwrap()).map_err(|e| e.to_string())?;
    Ok(path)
}

/// `dnssim minimise IN OUT`: child process so that a crashing candidate cannot take the
/// supervisor down.
pub fn cmd_minimise(input: &str, output: &str) -> i32 {
    let doc: Value = match std::fs::read_to_string(input).ok().and_then(|s| serde_json::from_str(&s).ok()) {
        Some(v) => v,
        None => return 2,
    };
    let prop = doc["property"].as_str().unwrap_or("").to_string();
    let sig = doc["signature"].as_str().unwrap_or("").to_string();
    let lane = doc["lane"].as_str().unwrap_or("N");
    let budget = 2000;
    let result = match lane {
        "N" => {
            let sc: ops::Scenario = match serde_json::from_value(doc["scenario"].clone()) {
                Ok(s) => s,
                Err(_) => return 2,
            };
            let s = shrink::minimise(&sc, &sig, &prop, budget);
            json!({"scenario": s.scenario, "candidates": s.candidates})
        }
        "C" => crate::lane_c::minimise(&doc["scenario"], &sig, budget),
        "T" => crate::lane_t::minimise(&prop, &doc["scenario"], &sig, budget),
        _ => return 2,
    };
    if std::fs::write(output, result.to_string()).is_err() {
        return 2;
    }
    0
}

pub fn replay_value(prop: &str, lane: &str, scenario: &Value, verbose: bool) -> Result<Option<crate::exec::Violation>, String> {
    match lane {
        "N" => lanes::replay_lane_n(prop, scenario, verbose),
        "C" => crate::lane_c::replay(scenario, verbose),
        "T" => crate::lane_t::replay(prop, scenario, verbose),
        "M" => crate::miri::replay(prop, scenario),
        "G" => {
            // regenerate (seed, run) in a child; reproduced if it hangs again
            let g = &scenario["regenerate"];
            let seed = g["seed"].as_u64().unwrap_or(1);
            let run = g["run"].as_u64().unwrap_or(0);
            match run_batch(prop, seed, run, run + 1, 1, false) {
                Ok(a) if a.deaths.iter().any(|(_, w)| w.starts_with("HUNG")) => Ok(Some(crate::exec::Violation {
                    props: vec![match prop { "C08" => "C08", "C09" => "C09", "C10" => "C10", _ => "C11" }],
                    clause: "operation-does-not-return".into(),
                    op: "history".into(),
                    key: String::new(),
                    detail: format!("run {} of seed {} hangs again", run, seed),
                    step: 0,
                })),
                Ok(_) => Ok(None),
                Err(e) => Err(e),
            }
        }
        "K" => {
            let seed = scenario["seed"].as_u64().unwrap_or(1);
            let run = scenario["run"].as_u64().unwrap_or(0);
            match clock_slice(prop, seed, run, run + 1, 1) {
                Ok((_, Some(r))) => Ok(Some(crate::exec::Violation {
                    props: vec![prop_static(prop)],
                    clause: "result-depends-on-wall-clock".into(),
                    op: "run".into(),
                    key: String::new(),
                    detail: format!("run {} logs differently when the wall clock is shifted by {} s", r, CLOCK_SKEW_SECS),
                    step: 0,
                })),
                Ok((_, None)) => Ok(None),
                Err(e) => Err(e),
            }
        }
        "P" => {
            let seed = scenario["seed"].as_u64().unwrap_or(1);
            let from = scenario["from"].as_u64().unwrap_or(0);
            let run = scenario["run"].as_u64().unwrap_or(0);
            match process_history_pair(prop, seed, from, run) {
                Some((a, b)) if a != b => Ok(Some(crate::exec::Violation {
                    props: vec![prop_static(prop)],
                    clause: "result-depends-on-process-history".into(),
                    op: "run-sequence".into(),
                    key: String::new(),
                    detail: format!("run {} logs {:016x} after runs {}.. in the same process but {:016x} alone", run, a, from, b),
                    step: 0,
                })),
                Some(_) => Ok(None),
                None => Err("could not execute the run sequence".into()),
            }
        }
        _ => Err(format!("unknown lane {}", lane)),
    }
}

/// `dnssim replay FILE`: exit 1 + VIOLATION line when the recorded violation reproduces.
pub fn cmd_replay(path: &str, verbose: bool) -> i32 {
    let doc: Value = match std::fs::read_to_string(path).ok().and_then(|s| serde_json::from_str(&s).ok()) {
        Some(v) => v,
        None => {
            eprintln!("cannot read replay file {}", path);
            return 2;
        }
    };
    let prop = doc["property"].as_str().unwrap_or("").to_string();
    let lane = doc["lane"].as_str().unwrap_or("N").to_string();
    let sig = doc["signature"].as_str().unwrap_or("").to_string();
    if doc["build"].as_str() == Some("relarith") && std::env::var("DNSSIM_IS_RELARITH").is_err() {
        // found by the release-arithmetic build: replay with that build
        if let Ok(bin) = std::env::var("DNSSIM_RELARITH_BIN") {
            if std::path::Path::new(&bin).exists() && std::env::current_exe().map(|e| e != std::path::Path::new(&bin)).unwrap_or(true) {
                let st = Command::new(&bin)
                    .arg("replay")
                    .arg(path)
                    .env("DNSSIM_IS_RELARITH", "1")
                    .status();
                return match st {
                    Ok(s) => s.code().unwrap_or(3),
                    Err(_) => 2,
                };
            }
        }
    }
    match replay_value(&prop, &lane, &doc["scenario"], verbose) {
        Ok(Some(v)) if v.signature() == sig && v.has(&prop) => {
            println!("reproduced: {}", v.detail);
            println!("VIOLATION property={} replay={}", prop, path);
            1
        }
        Ok(Some(v)) => {
            println!(
                "replay diverged: expected [{}], got [{}] ({})",
                sig,
                v.signature(),
                v.detail
            );
            2
        }
        Ok(None) => {
            println!("replay did not reproduce a violation (expected [{}])", sig);
            0
        }
        Err(e) => {
            println!("replay error: {}", e);
            2
        }
    }
}

pub fn cmd_check(prop: &str, tier: &str, seed: u64) -> i32 {
    let t0 = Instant::now();
    let kf = match KnownFindings::load(&format!("{}/known_findings.json", root())) {
        Ok(k) => k,
        Err(e) => {
            eprintln!("harness error: {}", e);
            return 2;
        }
    };
    let workers = ncpu();
    let runs: u64 = std::env::var("DNSSIM_RUNS")
        .ok()
        .and_then(|s| s.parse().ok())
        .unwrap_or_else(|| default_runs(prop, tier));
    // ---- determinism self-check: same runs, two process layouts, hashes must agree
    let dn: u64 = if tier == "quick" { 256 } else { 4096 }.min(runs);
    let d1 = match run_batch(prop, seed, 0, dn, 1, true) {
        Ok(a) => a,
        Err(e) => {
            eprintln!("harness error: {}", e);
            return 2;
        }
    };
    let d2 = match run_batch(prop, seed, 0, dn, workers.max(2), true) {
        Ok(a) => a,
        Err(e) => {
            eprintln!("harness error: {}", e);
            return 2;
        }
    };
    let mut det_mismatch = 0u64;
    if d1.deaths.is_empty() && d2.deaths.is_empty() {
        for (r, h) in &d1.hashes {
            if d2.hashes.get(r) != Some(h) {
                det_mismatch += 1;
            }
        }
        if d1.hashes.len() != d2.hashes.len() {
            det_mismatch += 1;
        }
    }
    // A mismatch is reported only after the exploration: if the library itself has become
    // history-dependent (what C17 forbids) the exploration will say so with a replayable case,
    // and that verdict must not be masked by a harness-error exit.
    // ---- exploration
    // Two slices: most runs with arithmetic and debug assertions checked (as `cargo test` builds
    // the library), the last fifth with the release-arithmetic build (wrapping arithmetic, no
    // debug assertions: what ships), when that binary has been built. Which build a run uses is
    // a function of its index only.
    let relarith: Option<std::path::PathBuf> = std::env::var("DNSSIM_RELARITH_BIN")
        .ok()
        .map(std::path::PathBuf::from)
        .filter(|p| p.exists() && matches!(prop, "C08" | "C09" | "C10" | "C11" | "C15"));
    let n1 = if relarith.is_some() { runs - runs / 5 } else { runs };
    let mut agg = match run_batch(prop, seed, 0, n1, workers, false) {
        Ok(a) => a,
        Err(e) => {
            eprintln!("harness error: {}", e);
            return 2;
        }
    };
    let mut relarith_runs = 0u64;
    if let Some(exe) = &relarith {
        match run_batch_exe(exe, prop, seed, n1, runs, workers, false) {
            Ok(a) => {
                relarith_runs = a.executed;
                merge(&mut agg, a);
            }
            Err(e) => {
                eprintln!("harness error: {}", e);
                return 2;
            }
        }
    }
    let wall_explore = t0.elapsed().as_secs_f64();
    let mut exit = 0;
    let mut violations_reported = 0u64;
    let mut replay_path = String::new();
    // known findings
    for (i, n) in &agg.known_hits {
        let f = &kf.findings[*i];
        println!("KNOWN-FINDING: property={} {} [signature {}; hit {} times]", prop, f.what, f.signature, n);
    }
    // worker deaths: for the lanes where a crash is itself a verdict (C15) the lane reports it as
    // a violation from the supervisor side; elsewhere it is a harness error
    let mut death_violations: Vec<Value> = Vec::new();
    for (run, why) in &agg.deaths {
        if prop == "C15" {
            let rep = crate::lane_c::death_violation(seed, *run, why);
            let sig = rep["violation"]["signature"].as_str().unwrap_or("").to_string();
            if let Some(i) = kf.matches(prop, "C", &sig) {
                let f = &kf.findings[i];
                println!("KNOWN-FINDING: property={} {} [signature {}; worker died]", prop, f.what, f.signature);
            } else {
                death_violations.push(rep);
            }
        } else if prop == "C16" && !why.starts_with("HUNG") && marker_line(why, "T ").is_some() {
            let rep = crate::lane_t::death_violation_c16(seed, *run, why);
            let sig = rep["violation"]["signature"].as_str().unwrap_or("").to_string();
            if let Some(i) = kf.matches(prop, "T", &sig) {
                let f = &kf.findings[i];
                println!("KNOWN-FINDING: property={} {} [signature {}; worker died]", prop, f.what, f.signature);
            } else {
                death_violations.push(rep);
            }
        } else if why.starts_with("HUNG") && matches!(prop, "C08" | "C09" | "C10" | "C11") {
            // an API operation of the history never returned
            let v = crate::exec::Violation {
                props: vec![match prop { "C08" => "C08", "C09" => "C09", "C10" => "C10", _ => "C11" }],
                clause: "operation-does-not-return".into(),
                op: "history".into(),
                key: String::new(),
                detail: format!("an operation of the generated history made no progress for {} s: {}", hang_secs(), why.chars().take(200).collect::<String>()),
                step: 0,
            };
            death_violations.push(json!({"run": run, "seed": seed, "lane": "G", "violation": lanes::violation_json(&v),
                "scenario": {"regenerate": {"property": prop, "seed": seed, "run": run}}}));
        } else {
            eprintln!("harness error: {}", why);
            exit = 2;
        }
    }
    let mut all_v: Vec<Value> = agg.violations.clone();
    all_v.extend(death_violations);
    if prop == "C15" {
        // header conformance by use: probes compiled at build time against the shipped header
        for v in crate::lane_c::header_violations() {
            let sig = v.signature();
            if let Some(i) = kf.matches(prop, "C", &sig) {
                let f = &kf.findings[i];
                println!("KNOWN-FINDING: property={} {} [signature {}]", prop, f.what, f.signature);
            } else {
                all_v.push(json!({"run": 0, "seed": seed, "lane": "C",
                    "violation": lanes::violation_json(&v),
                    "scenario": {"header_probe": v.op}}));
            }
        }
    }
    if !all_v.is_empty() {
        all_v.sort_by_key(|v| v["run"].as_u64().unwrap_or(u64::MAX));
        // prefer the shortest scenario among the first few
        let mut pick = all_v
            .iter()
            .take(12)
            .min_by_key(|v| v["scenario"].to_string().len())
            .unwrap()
            .clone();
        let pick_relarith = relarith.is_some()
            && pick["run"].as_u64().unwrap_or(0) >= n1
            && matches!(pick["lane"].as_str(), Some("N") | Some("C"));
        if pick_relarith {
            pick["build"] = json!("relarith");
        }
        let tool_exe: std::path::PathBuf = if pick_relarith {
            relarith.clone().unwrap()
        } else {
            std::env::current_exe().unwrap()
        };
        violations_reported = agg.violation_count.max(all_v.len() as u64);
        // minimise in a child process
        let tmp_in = format!("{}/replays/.min-in-{}.json", root(), std::process::id());
        let tmp_out = format!("{}/replays/.min-out-{}.json", root(), std::process::id());
        let _ = std::fs::create_dir_all(format!("{}/replays", root()));
        let min_doc = json!({"property": prop, "lane": pick["lane"], "signature": pick["violation"]["signature"], "scenario": pick["scenario"]});
        let mut minimised: Option<Value> = None;
        let mut cands = 0usize;
        if std::fs::write(&tmp_in, min_doc.to_string()).is_ok() {
            let st = Command::new(&tool_exe)
                .arg("minimise")
                .arg(&tmp_in)
                .arg(&tmp_out)
                .stdout(Stdio::null())
                .stderr(Stdio::null())
                .status();
            if let Ok(st) = st {
                if st.success() {
                    if let Some(v) = std::fs::read_to_string(&tmp_out).ok().and_then(|s| serde_json::from_str::<Value>(&s).ok()) {
                        cands = v["candidates"].as_u64().unwrap_or(0) as usize;
                        minimised = Some(v["scenario"].clone());
                    }
                }
            }
        }
        let _ = std::fs::remove_file(&tmp_in);
        let _ = std::fs::remove_file(&tmp_out);
        match write_replay(prop, &pick, minimised.as_ref(), cands) {
            Ok(path) => {
                // the minimised file must reproduce in a fresh process
                let st = Command::new(&tool_exe)
                    .arg("replay")
                    .arg(&path)
                    .stdout(Stdio::piped())
                    .stderr(Stdio::null())
                    .output();
                let reproduced = matches!(&st, Ok(o) if o.status.code() == Some(1));
                let crashed = matches!(&st, Ok(o) if o.status.code().is_none() || o.status.code().map(|c| c > 2).unwrap_or(false));
                if reproduced || (crashed && (prop == "C15" || prop == "C16")) {
                    println!(
                        "violation: {}",
                        pick["violation"]["detail"].as_str().unwrap_or("")
                    );
                    for (sig, n) in agg.violation_sigs.iter().take(8) {
                        println!("  signature [{}] x{}", sig, n);
                    }
                    println!("VIOLATION property={} replay={}", prop, path);
                    replay_path = path;
                    exit = 1;
                } else {
                    // fall back to the unminimised scenario
                    match write_replay(prop, &pick, None, 0) {
                        Ok(path2) => {
                            let st2 = Command::new(&tool_exe)
                                .arg("replay")
                                .arg(&path2)
                                .stdout(Stdio::null())
                                .stderr(Stdio::null())
                                .status();
                            let ok2 = match st2 {
                                Ok(s) => s.code() == Some(1) || ((prop == "C15" || prop == "C16") && s.code() != Some(0) && s.code() != Some(2)),
                                Err(_) => false,
                            };
                            if ok2 {
                                println!(
                                    "violation: {}",
                                    pick["violation"]["detail"].as_str().unwrap_or("")
                                );
                                println!("VIOLATION property={} replay={}", prop, path2);
                                replay_path = path2;
                                exit = 1;
                            } else if pick["lane"].as_str() != Some("M") {
                                // the outcome depended on what the worker's thread had processed
                                // (C17) / on failures of threads of *earlier runs* of the same
                                // process (C16): replay the run sequence instead
                                let r = pick["run"].as_u64().unwrap_or(0);
                                let wf = pick["worker_from"].as_u64().unwrap_or(0);
                                match process_history_window(prop, seed, r, wf) {
                                    Some((from, h_seq, h_alone)) => {
                                        let v = crate::exec::Violation {
                                            props: vec![prop_static(prop)],
                                            clause: "result-depends-on-process-history".into(),
                                            op: "run-sequence".into(),
                                            key: String::new(),
                                            detail: format!(
                                                "{} [run {} behaves as {:x} after runs {}.. in the same process but {:x} in a fresh process]",
                                                pick["violation"]["detail"].as_str().unwrap_or(""), r, h_seq, from, h_alone
                                            ),
                                            step: 0,
                                        };
                                        let doc = json!({"run": r, "seed": seed, "lane": "P", "violation": lanes::violation_json(&v),
                                                         "scenario": {"seed": seed, "from": from, "run": r}});
                                        match write_replay(prop, &doc, None, 0) {
                                            Ok(path3) => {
                                                println!("violation: {}", v.detail);
                                                println!("VIOLATION property={} replay={}", prop, path3);
                                                replay_path = path3;
                                                exit = 1;
                                            }
                                            Err(e) => {
                                                eprintln!("harness error: {}", e);
                                                exit = 2;
                                            }
                                        }
                                    }
                                    None => {
                                        eprintln!("harness error: a violation was seen but neither its scenario nor its run sequence reproduces it ({})", path2);
                                        exit = 2;
                                    }
                                }
                            } else {
                                eprintln!("harness error: a violation was seen but its replay file does not reproduce it ({})", path2);
                                exit = 2;
                            }
                        }
                        Err(e) => {
                            eprintln!("harness error: {}", e);
                            exit = 2;
                        }
                    }
                }
            }
            Err(e) => {
                eprintln!("harness error: {}", e);
                exit = 2;
            }
        }
    }
    // ---- lane M (Miri's seeded preemptive scheduler) for the thread/table properties
    let mut miri_ev = json!({"used": false});
    if matches!(prop, "C15" | "C16" | "C17") && exit == 0 {
        let mo = crate::miri::miri_slice(prop, tier, seed);
        miri_ev = json!({"used": mo.executions > 0, "executions": mo.executions, "wall_s": mo.wall_s,
                         "flags": crate::miri::MIRI_FLAGS, "note": mo.note,
                         "what": "the thread / table workloads of /verif/miri interpreted by Miri: one (Miri seed, workload seed) pair is one repeatable execution with preemption inside calls; data races, out-of-bounds and use-after-free are reported"});
        if let Some((wseed, mseed, kind, excerpt)) = mo.failure {
            let v = crate::miri::violation(prop, &kind, &excerpt);
            let sig = v.signature();
            if let Some(i) = kf.matches(prop, "M", &sig) {
                let f = &kf.findings[i];
                println!("KNOWN-FINDING: property={} {} [signature {}]", prop, f.what, f.signature);
            } else {
                let doc = json!({"run": 0, "seed": seed, "lane": "M", "violation": lanes::violation_json(&v),
                                 "scenario": crate::miri::scenario(prop, wseed, mseed, 64)});
                match write_replay(prop, &doc, None, 0) {
                    Ok(path) => {
                        println!("violation: {}", v.detail);
                        println!("VIOLATION property={} replay={}", prop, path);
                        replay_path = path;
                        violations_reported += 1;
                        exit = 1;
                    }
                    Err(e) => {
                        eprintln!("harness error: {}", e);
                        exit = 2;
                    }
                }
            }
        }
    }
    // ---- lane K (C17): clock skew. The library reads no clock; results that change when the
    // wall clock jumps by 400 days depend on something other than the arguments.
    let mut clock_ev = json!({"used": false});
    if prop == "C17" && exit == 0 {
        let kn: u64 = if tier == "quick" { 3000 } else { 100_000 }.min(runs);
        match clock_slice(prop, seed, 0, kn, workers) {
            Ok((n, None)) => {
                clock_ev = json!({"used": true, "runs_compared": n, "skew_seconds": CLOCK_SKEW_SECS, "differences": 0,
                    "what": "the same runs executed under the real wall clock and with CLOCK_REALTIME/gettimeofday/time shifted through a preloaded seam; event logs must be identical"});
            }
            Ok((n, Some(r))) => {
                clock_ev = json!({"used": true, "runs_compared": n, "skew_seconds": CLOCK_SKEW_SECS, "differences": 1});
                let v = crate::exec::Violation {
                    props: vec!["C17"],
                    clause: "result-depends-on-wall-clock".into(),
                    op: "run".into(),
                    key: String::new(),
                    detail: format!(
                        "run {} produces a different event log when the wall clock is shifted by {} s: some result depends on the time of the call, not only on its arguments",
                        r, CLOCK_SKEW_SECS
                    ),
                    step: 0,
                };
                let doc = json!({"run": r, "seed": seed, "lane": "K", "violation": lanes::violation_json(&v),
                                 "scenario": {"seed": seed, "run": r, "skew_seconds": CLOCK_SKEW_SECS}});
                if let Ok(path) = write_replay(prop, &doc, None, 0) {
                    println!("violation: {}", v.detail);
                    println!("VIOLATION property={} replay={}", prop, path);
                    replay_path = path;
                    violations_reported += 1;
                    exit = 1;
                }
            }
            Err(e) => {
                clock_ev = json!({"used": false, "note": e});
            }
        }
    }
    // C17 only: the same run giving a different event log depending on which runs the same
    // process executed before it is, by definition, a result that depends on earlier calls.
    if prop == "C17" && det_mismatch > 0 && exit == 0 {
        let r = d1
            .hashes
            .iter()
            .find(|(r, h)| d2.hashes.get(r) != Some(h))
            .map(|(r, _)| *r);
        if let Some(r) = r {
            if let Some((from, h_seq, h_alone)) = process_history_window(prop, seed, r, 0) {
                let v = crate::exec::Violation {
                    props: vec!["C17"],
                    clause: "result-depends-on-process-history".into(),
                    op: "run-sequence".into(),
                    key: String::new(),
                    detail: format!(
                        "run {} produces event log {:016x} when the same process first executes runs {}..{} and {:016x} when it starts fresh: some library result depends on earlier calls",
                        r, h_seq, from, r, h_alone
                    ),
                    step: 0,
                };
                let doc = json!({"run": r, "seed": seed, "lane": "P", "violation": lanes::violation_json(&v),
                                 "scenario": {"seed": seed, "from": from, "run": r}});
                if let Ok(path) = write_replay(prop, &doc, None, 0) {
                    println!("violation: {}", v.detail);
                    println!("VIOLATION property={} replay={}", prop, path);
                    replay_path = path;
                    violations_reported += 1;
                    exit = 1;
                }
            }
        }
    }
    if det_mismatch > 0 && exit == 0 {
        eprintln!(
            "harness error: determinism self-check failed ({} of {} runs hashed differently across process layouts) and no violation explains it",
            det_mismatch, dn
        );
        exit = 2;
    }
    if agg.executed > 0 && agg.rejected * 2 > agg.executed {
        eprintln!(
            "harness error: {} of {} generated scenarios were unusable (first: {:?})",
            agg.rejected,
            agg.executed,
            agg.rejects.first()
        );
        if exit == 0 {
            exit = 2;
        }
    }
    // ---- evidence
    let wall = t0.elapsed().as_secs_f64();
    let mut probes = serde_json::Map::new();
    let mut faults = serde_json::Map::new();
    let mut errors = serde_json::Map::new();
    let mut shapes = serde_json::Map::new();
    let mut other = serde_json::Map::new();
    for (k, v) in &agg.stats {
        if let Some(p) = k.strip_prefix("probe:") {
            probes.insert(p.to_string(), json!(v));
        } else if k.starts_with("fault_") {
            faults.insert(k.to_string(), json!(v));
        } else if let Some(p) = k.strip_prefix("error_returned:") {
            errors.insert(p.to_string(), json!(v));
        } else if let Some(p) = k.strip_prefix("shape:") {
            shapes.insert(p.to_string(), json!(v));
        } else {
            other.insert(k.to_string(), json!(v));
        }
    }
    let known: Vec<Value> = agg
        .known_hits
        .iter()
        .map(|(i, n)| json!({"signature": kf.findings[*i].signature, "what": kf.findings[*i].what, "hits": n}))
        .collect();
    let samples: Vec<Value> = agg.samples.iter().take(3).cloned().collect();
    let evidence = json!({
        "property_id": prop,
        "tier": tier,
        "seed": seed,
        "level": level_for(prop),
        "wall_s": wall,
        "violations": violations_reported,
        "coverage": {
            "evaluations": agg.executed,
            "distinct_nontrivial": agg.distinct.len(),
            "rule": rule_for(prop),
            "samples": if samples.is_empty() { vec![json!("no non-trivial sample was produced by worker 0 in this run")] } else { samples },
            "simulated_runs": agg.executed,
            "nontrivial_runs": agg.nontrivial,
            "logical_steps_executed": agg.steps,
            "simulated_time": "none: the system has no clock or timer; logical steps (API calls judged by the oracles) stand in",
            "runs_per_hour": if wall_explore > 0.0 { (agg.executed as f64 / wall_explore * 3600.0) as u64 } else { 0 },
            "workers": workers,
            "runs_with_release_arithmetic_build": relarith_runs,
            "fault_kinds": faults,
            "fault_kinds_absent_in_system": ["network loss/duplication/reordering", "partition", "crash/restart", "clock skew", "disk error / torn write", "allocation failure (aborts, nothing to recover)"],
            "errors_returned_by_library": errors,
            "reach_probes": probes,
            "packet_shapes": shapes,
            "other_counters": other,
            "runs_ended_by_unclaimed_panic": agg.unclaimed,
            "runs_ended_by_other_property_violation": agg.other_prop,
            "generated_scenarios_unusable": agg.rejected,
            "determinism_selfcheck": {"runs": dn, "layouts": [1, workers.max(2)], "mismatches": det_mismatch},
            "known_findings_hit": known,
            "miri_lane": miri_ev,
            "clock_skew_lane": clock_ev,
            "violation_signatures": agg.violation_sigs,
            "replay": replay_path,
            "components": components_for(prop),
        },
        "assumptions": assumptions_for(prop),
    });
    let evdir = format!("{}/evidence", root());
    let _ = std::fs::create_dir_all(&evdir);
    if let Err(e) = std::fs::write(
        format!("{}/{}.json", evdir, prop),
        serde_json::to_string_pretty(&evidence).unwrap(),
    ) {
        eprintln!("harness error: cannot write evidence: {}", e);
        return 2;
    }
    println!(
        "{} {}: {} runs ({} non-trivial, {} distinct), {} steps, {:.1}s, {} known-finding hits, {} violations",
        prop,
        tier,
        agg.executed,
        agg.nontrivial,
        agg.distinct.len(),
        agg.steps,
        wall,
        agg.known_hits.values().sum::<u64>(),
        violations_reported
    );
    exit
}

fn rule_for(prop: &str) -> &'static str {
    match prop {
        "C08" | "C09" => "one run = one seeded packet (shape class x compression layout x OPT placement x QR) plus one seeded history of API operations generated adaptively against the model; non-trivial = at least one state-changing operation succeeded; distinct = distinct hash of (packet shape class, sequence of operation kinds)",
        "C10" => "one run = seeded packet plus seeded history with injected failing operations; non-trivial = at least one state change succeeded AND at least one operation returned an error or a fault fired; distinct = distinct hash of (packet shape class, sequence of operation kinds)",
        "C11" => "one run = seeded section contents with unique tags plus complete walk(s) with a seeded deletion policy; non-trivial = at least one deletion succeeded; distinct = distinct hash of (packet shape class, sequence of cursor operation kinds)",
        "C15" => "one run = seeded packet plus seeded hook script executed through the C table by a C driver compiled against c_hook.h and, in parallel, through the native API; non-trivial = at least one table call changed the packet or failed; distinct = distinct hash of (packet shape class, sequence of table entries called)",
        "C16" => "one run = 2-4 real threads with seeded FAIL/READ/OK scripts under a seeded schedule (uniform or PCT); non-trivial = at least two threads failed with different texts and a READ happened after another thread's FAIL; distinct = distinct hash of (scripts, schedule)",
        "C17" => "one run = a pool of seeded inputs sharing a small label alphabet, evaluated alone (baseline) and then in seeded orders on one thread and interleaved across parked threads; non-trivial = the pool contains at least two different inputs to the same function; distinct = distinct hash of (call kinds, order, schedule)",
        _ => "",
    }
}

fn components_for(prop: &str) -> Value {
    match prop {
        "C15" => json!({"real": ["dnssector library built from /repo working tree", "c_abi FnTable", "c_hook.h as shipped (driver compiled against it by cc)", "C compiler and ABI"], "stub": ["the hook itself: a harness-written C interpreter of generated scripts"], "harness": ["reference codec/model", "script generator"]}),
        "C16" | "C17" => json!({"real": ["dnssector library built from /repo working tree", "OS threads and std::thread_local! storage"], "stub": [], "harness": ["step scheduler (one runnable thread at a time)", "script generator"]}),
        _ => json!({"real": ["dnssector library built from /repo working tree (parser, iterators, mutators, compressor, renamer, text synthesiser)"], "stub": [], "harness": ["reference model and independent RFC 1035 codec", "operation generator", "oracles"]}),
    }
}

fn assumptions_for(prop: &str) -> Vec<&'static str> {
    let mut v = vec![
        "sampling, not proof: the verdict covers the explored runs only",
        "the harness's reference codec/recogniser is correct (it is cross-checked against the parser on every generated packet)",
    ];
    match prop {
        "C08" | "C09" | "C10" | "C11" => v.push("states the parser rejects for policy-only reasons (no question / records in a query) are judged against the recogniser's layout, since the mutation API cannot refuse them"),
        "C15" => v.push("defects present identically in the native API and the table are invisible to the differential oracle (they belong to C08-C11)"),
        "C16" | "C17" => v.push("interleaving is at call granularity in the step scheduler; finer interleavings are covered only by the Miri lane on small workloads"),
        _ => {}
    }
    v
}
