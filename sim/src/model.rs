//! Abstract DNS message model: the trusted base of the oracles. No dnssector code here.

use serde::{Deserialize, Serialize};

pub const T_A: u16 = 1;
pub const T_NS: u16 = 2;
pub const T_CNAME: u16 = 5;
pub const T_SOA: u16 = 6;
pub const T_PTR: u16 = 12;
pub const T_MX: u16 = 15;
pub const T_TXT: u16 = 16;
pub const T_AAAA: u16 = 28;
pub const T_DNAME: u16 = 39;
pub const T_OPT: u16 = 41;
pub const T_DS: u16 = 43;

pub const SEC_Q: usize = 0;
pub const SEC_AN: usize = 1;
pub const SEC_NS: usize = 2;
pub const SEC_AR: usize = 3;
pub const SEC_NAMES: [&str; 4] = ["question", "answer", "nameservers", "additional"];

#[derive(Clone, PartialEq, Eq, Debug, Default, Serialize, Deserialize, PartialOrd, Ord)]
pub struct Name(pub Vec<Vec<u8>>);

impl Name {
    pub fn root() -> Name {
        Name(Vec::new())
    }
    pub fn from_labels(ls: &[&[u8]]) -> Name {
        Name(ls.iter().map(|l| l.to_vec()).collect())
    }
    /// Pointer-free wire form, including the terminating root label.
    pub fn wire(&self) -> Vec<u8> {
        let mut v = Vec::with_capacity(self.wire_len());
        for l in &self.0 {
            v.push(l.len() as u8);
            v.extend_from_slice(l);
        }
        v.push(0);
        v
    }
    pub fn wire_len(&self) -> usize {
        1 + self.0.iter().map(|l| l.len() + 1).sum::<usize>()
    }
    pub fn from_wire(w: &[u8]) -> Option<Name> {
        let mut labels = Vec::new();
        let mut i = 0;
        loop {
            let l = *w.get(i)? as usize;
            if l == 0 {
                return Some(Name(labels));
            }
            if l > 63 {
                return None;
            }
            labels.push(w.get(i + 1..i + 1 + l)?.to_vec());
            i += 1 + l;
        }
    }
    pub fn eq_nocase(&self, other: &Name) -> bool {
        self.0.len() == other.0.len()
            && self
                .0
                .iter()
                .zip(other.0.iter())
                .all(|(a, b)| a.eq_ignore_ascii_case(b))
    }
    /// Presentation form used in logs only.
    pub fn show(&self) -> String {
        if self.0.is_empty() {
            return ".".into();
        }
        let mut s = String::new();
        for l in &self.0 {
            for &c in l {
                if c.is_ascii_graphic() && c != b'.' && c != b'\\' {
                    s.push(c as char);
                } else {
                    s.push_str(&format!("\\{:03}", c));
                }
            }
            s.push('.');
        }
        s
    }
    /// Text form accepted by the library's text->wire conversion (no trailing dot; "." for root).
    pub fn text(&self) -> Vec<u8> {
        if self.0.is_empty() {
            return b".".to_vec();
        }
        let mut v = Vec::new();
        for (i, l) in self.0.iter().enumerate() {
            if i > 0 {
                v.push(b'.');
            }
            v.extend_from_slice(l);
        }
        v
    }
}

#[derive(Clone, PartialEq, Eq, Debug, Serialize, Deserialize)]
pub enum RData {
    A([u8; 4]),
    AAAA([u8; 16]),
    /// NS, CNAME, PTR
    Name(Name),
    MX(u16, Name),
    SOA(Name, Name, [u8; 20]),
    /// pointer-free target, any label bytes
    DNAME(Name),
    /// every other type, and OPT (rdata = option bytes)
    Opaque(Vec<u8>),
}

impl RData {
    pub fn eq_nocase(&self, o: &RData) -> bool {
        match (self, o) {
            (RData::Name(a), RData::Name(b)) => a.eq_nocase(b),
            (RData::MX(p, a), RData::MX(q, b)) => p == q && a.eq_nocase(b),
            (RData::SOA(a1, a2, am), RData::SOA(b1, b2, bm)) => {
                a1.eq_nocase(b1) && a2.eq_nocase(b2) && am == bm
            }
            (a, b) => a == b,
        }
    }
    /// Pointer-free wire length of the rdata.
    pub fn wire_len(&self) -> usize {
        match self {
            RData::A(_) => 4,
            RData::AAAA(_) => 16,
            RData::Name(n) | RData::DNAME(n) => n.wire_len(),
            RData::MX(_, n) => 2 + n.wire_len(),
            RData::SOA(a, b, _) => a.wire_len() + b.wire_len() + 20,
            RData::Opaque(v) => v.len(),
        }
    }
}

#[derive(Clone, PartialEq, Eq, Debug, Serialize, Deserialize)]
pub struct Rec {
    pub name: Name,
    pub rtype: u16,
    pub class: u16,
    pub ttl: u32,
    pub rdata: RData,
}

impl Rec {
    pub fn eq_nocase(&self, o: &Rec) -> bool {
        self.name.eq_nocase(&o.name)
            && self.rtype == o.rtype
            && self.class == o.class
            && self.ttl == o.ttl
            && self.rdata.eq_nocase(&o.rdata)
    }
    pub fn wire_len(&self) -> usize {
        self.name.wire_len() + 10 + self.rdata.wire_len()
    }
    pub fn is_opt(&self) -> bool {
        self.rtype == T_OPT
    }
    pub fn show(&self) -> String {
        format!(
            "{} type={} class={} ttl={} rdlen={}",
            self.name.show(),
            self.rtype,
            self.class,
            self.ttl,
            self.rdata.wire_len()
        )
    }
}

#[derive(Clone, PartialEq, Eq, Debug, Serialize, Deserialize)]
pub struct Question {
    pub name: Name,
    pub qtype: u16,
    pub qclass: u16,
}

#[derive(Clone, PartialEq, Eq, Debug, Serialize, Deserialize, Default)]
pub struct Msg {
    pub id: u16,
    pub flags: u16,
    pub q: Option<Question>,
    /// an, ns, ar
    pub sec: [Vec<Rec>; 3],
}

impl Msg {
    pub fn section(&self, s: usize) -> &Vec<Rec> {
        &self.sec[s - 1]
    }
    pub fn section_mut(&mut self, s: usize) -> &mut Vec<Rec> {
        &mut self.sec[s - 1]
    }
    pub fn count(&self, s: usize) -> usize {
        if s == SEC_Q {
            self.q.is_some() as usize
        } else {
            self.sec[s - 1].len()
        }
    }
    pub fn is_response(&self) -> bool {
        self.flags & 0x8000 != 0
    }
    pub fn opt_index(&self) -> Option<usize> {
        self.sec[2].iter().position(|r| r.is_opt())
    }
    /// Equality up to ASCII case in names (all names except DNAME targets / opaque data).
    pub fn eq_nocase(&self, o: &Msg) -> bool {
        self.id == o.id
            && self.flags == o.flags
            && match (&self.q, &o.q) {
                (None, None) => true,
                (Some(a), Some(b)) => {
                    a.name.eq_nocase(&b.name) && a.qtype == b.qtype && a.qclass == b.qclass
                }
                _ => false,
            }
            && (0..3).all(|i| {
                self.sec[i].len() == o.sec[i].len()
                    && self.sec[i]
                        .iter()
                        .zip(o.sec[i].iter())
                        .all(|(a, b)| a.eq_nocase(b))
            })
    }
    /// Human-readable first difference (for reports).
    pub fn diff(&self, o: &Msg, nocase: bool) -> Option<String> {
        if self.id != o.id {
            return Some(format!("id {:#06x} vs {:#06x}", self.id, o.id));
        }
        if self.flags != o.flags {
            return Some(format!("flags {:#06x} vs {:#06x}", self.flags, o.flags));
        }
        match (&self.q, &o.q) {
            (None, None) => {}
            (Some(a), Some(b)) => {
                let same_name = if nocase {
                    a.name.eq_nocase(&b.name)
                } else {
                    a.name == b.name
                };
                if !same_name || a.qtype != b.qtype || a.qclass != b.qclass {
                    return Some(format!(
                        "question {} {}/{} vs {} {}/{}",
                        a.name.show(),
                        a.qtype,
                        a.qclass,
                        b.name.show(),
                        b.qtype,
                        b.qclass
                    ));
                }
            }
            (a, b) => {
                return Some(format!(
                    "question present={} vs present={}",
                    a.is_some(),
                    b.is_some()
                ))
            }
        }
        for i in 0..3 {
            if self.sec[i].len() != o.sec[i].len() {
                return Some(format!(
                    "{} count {} vs {}",
                    SEC_NAMES[i + 1],
                    self.sec[i].len(),
                    o.sec[i].len()
                ));
            }
            for (k, (a, b)) in self.sec[i].iter().zip(o.sec[i].iter()).enumerate() {
                let same = if nocase { a.eq_nocase(b) } else { a == b };
                if !same {
                    return Some(format!(
                        "{}[{}]: [{}] vs [{}]",
                        SEC_NAMES[i + 1],
                        k,
                        a.show(),
                        b.show()
                    ));
                }
            }
        }
        None
    }
    pub fn same(&self, o: &Msg, nocase: bool) -> bool {
        if nocase {
            self.eq_nocase(o)
        } else {
            self == o
        }
    }
}
