/*
 * Clock seam for lane K (C17): preloaded into worker processes, it shifts the wall clock
 * (CLOCK_REALTIME, gettimeofday, time) by DNSSIM_CLOCK_SKEW seconds. Monotonic clocks are left
 * alone. The library under test reads no clock; a result that changes under a skewed wall clock
 * depends on something other than its arguments.
 */
#define _GNU_SOURCE
#include <dlfcn.h>
#include <stdlib.h>
#include <sys/time.h>
#include <time.h>

static long long skew_seconds(void)
{
    static int       init = 0;
    static long long s    = 0;
    if (!init) {
        const char *e = getenv("DNSSIM_CLOCK_SKEW");
        s    = e ? atoll(e) : 0;
        init = 1;
    }
    return s;
}

int clock_gettime(clockid_t id, struct timespec *ts)
{
    static int (*real)(clockid_t, struct timespec *) = 0;
    int r;
    if (!real) {
        real = (int (*)(clockid_t, struct timespec *)) dlsym(RTLD_NEXT, "clock_gettime");
    }
    r = real(id, ts);
    if (r == 0 && (id == CLOCK_REALTIME || id == CLOCK_REALTIME_COARSE)) {
        ts->tv_sec += skew_seconds();
    }
    return r;
}

int gettimeofday(struct timeval *tv, void *tz)
{
    static int (*real)(struct timeval *, void *) = 0;
    int r;
    if (!real) {
        real = (int (*)(struct timeval *, void *)) dlsym(RTLD_NEXT, "gettimeofday");
    }
    r = real(tv, tz);
    if (r == 0 && tv) {
        tv->tv_sec += skew_seconds();
    }
    return r;
}

time_t time(time_t *t)
{
    static time_t (*real)(time_t *) = 0;
    time_t v;
    if (!real) {
        real = (time_t(*)(time_t *)) dlsym(RTLD_NEXT, "time");
    }
    v = real(0);
    if (v != (time_t) -1) {
        v += skew_seconds();
    }
    if (t) {
        *t = v;
    }
    return v;
}
