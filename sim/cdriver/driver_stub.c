/* Used only when driver.c does not compile against the shipped header. */
#include <stddef.h>
#include <stdint.h>
int dnssim_driver_ok(void) { return 0; }
int dnssim_run_op(const void *t, void *pp, const uint8_t *script, size_t script_len,
                  uint8_t *logbuf, size_t log_cap, size_t *log_len)
{
    (void) t; (void) pp; (void) script; (void) script_len; (void) logbuf; (void) log_cap;
    *log_len = 0;
    return -99;
}
