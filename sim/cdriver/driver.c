/*
 * Lane C driver: executes a byte-coded hook script through `const FnTable *` exactly as a C hook
 * compiled against the *shipped* header would, and writes every observable result to a log that
 * the harness compares with the native API's. Caller buffers are exact-size and fenced by
 * 64-byte canaries that are checked after every table call.
 */
#include "c_hook.h"
#include <stdlib.h>
#include <string.h>

#define CANARY 0xA5
#define FENCE 64
#define MAX_VISITS 300

typedef struct Log {
    uint8_t *buf;
    size_t   cap;
    size_t   len;
    int      overflow;
} Log;

static void log_bytes(Log *l, const void *p, size_t n)
{
    if (l->len + n > l->cap) {
        l->overflow = 1;
        return;
    }
    memcpy(l->buf + l->len, p, n);
    l->len += n;
}
static void log_u8(Log *l, uint8_t v) { log_bytes(l, &v, 1); }
static void log_u16(Log *l, uint16_t v)
{
    uint8_t b[2] = { (uint8_t)(v >> 8), (uint8_t) v };
    log_bytes(l, b, 2);
}
static void log_u32(Log *l, uint32_t v)
{
    uint8_t b[4] = { (uint8_t)(v >> 24), (uint8_t)(v >> 16), (uint8_t)(v >> 8), (uint8_t) v };
    log_bytes(l, b, 4);
}
static void log_u64(Log *l, uint64_t v)
{
    log_u32(l, (uint32_t)(v >> 32));
    log_u32(l, (uint32_t) v);
}
static void log_str(Log *l, const void *p, size_t n)
{
    log_u16(l, (uint16_t) n);
    log_bytes(l, p, n);
}

/* fenced buffer */
typedef struct Fenced {
    uint8_t *base;
    uint8_t *data;
    size_t   n;
} Fenced;

/* The rear guard is large (REAR bytes) so that an overrun of the caller's buffer stays inside
 * this allocation: the damage is then *observed* through the canary instead of corrupting the
 * heap and killing the process at some later, unrelated point. */
#define REAR 70000
static int fenced_new(Fenced *f, size_t n, uint8_t fill)
{
    f->base = (uint8_t *) malloc(FENCE + n + REAR);
    if (f->base == NULL) {
        return -1;
    }
    memset(f->base, CANARY, FENCE + n + REAR);
    f->data = f->base + FENCE;
    f->n    = n;
    memset(f->data, fill, n);
    return 0;
}
static int fenced_ok(const Fenced *f)
{
    size_t i;
    for (i = 0; i < FENCE; i++) {
        if (f->base[i] != CANARY) {
            return 0;
        }
    }
    for (i = 0; i < REAR; i++) {
        if (f->data[f->n + i] != CANARY) {
            return 0;
        }
    }
    return 1;
}
static void fenced_free(Fenced *f) { free(f->base); }

static void log_err(Log *l, const FnTable *t, const CErr *err)
{
    const char *d;
    size_t      n;
    if (err == NULL) {
        log_u16(l, 0xfffe);
        return;
    }
    d = t->error_description(err);
    if (d == NULL) {
        log_u16(l, 0xfffd);
        return;
    }
    n = strnlen(d, 2000);
    log_str(l, d, n);
}

/* script reader */
typedef struct Rd {
    const uint8_t *p;
    size_t         n;
    size_t         i;
    int            bad;
} Rd;
static uint8_t rd_u8(Rd *r)
{
    if (r->i + 1 > r->n) {
        r->bad = 1;
        return 0;
    }
    return r->p[r->i++];
}
static uint16_t rd_u16(Rd *r)
{
    uint16_t a = rd_u8(r);
    return (uint16_t)((a << 8) | rd_u8(r));
}
static uint32_t rd_u32(Rd *r)
{
    uint32_t a = rd_u16(r);
    return (a << 16) | rd_u16(r);
}
static const uint8_t *rd_blob(Rd *r, size_t *n)
{
    const uint8_t *p;
    *n = rd_u16(r);
    if (r->i + *n > r->n) {
        r->bad = 1;
        *n     = 0;
        return r->p;
    }
    p = r->p + r->i;
    r->i += *n;
    return p;
}

typedef struct CbCtx {
    const FnTable *t;
    Log           *log;
    const uint8_t *progs; /* n_progs x (u16 len, bytes) */
    size_t         progs_len;
    unsigned       n_progs;
    unsigned       visits;
    int            edns;
    int            canary_bad;
} CbCtx;

static bool cb(void *ctx_, void *it)
{
    CbCtx         *ctx = (CbCtx *) ctx_;
    const FnTable *t   = ctx->t;
    Log           *l   = ctx->log;
    Rd             all, r;
    unsigned       k, which;
    int            deleted = 0;
    const CErr    *err     = NULL;

    if (ctx->edns) {
        ctx->visits++;
        return ctx->visits >= MAX_VISITS;
    }
    log_u8(l, 0xC0);
    log_u16(l, (uint16_t) ctx->visits);
    which = ctx->n_progs ? ctx->visits % ctx->n_progs : 0;
    ctx->visits++;
    if (ctx->visits > MAX_VISITS) {
        return true;
    }
    all.p = ctx->progs; all.n = ctx->progs_len; all.i = 0; all.bad = 0;
    r.p = NULL; r.n = 0; r.i = 0; r.bad = 0;
    for (k = 0; k <= which && k < ctx->n_progs; k++) {
        size_t n;
        const uint8_t *p = rd_blob(&all, &n);
        if (k == which) {
            r.p = p; r.n = n; r.i = 0; r.bad = 0;
        }
    }
    while (r.p != NULL && r.i < r.n && !r.bad) {
        uint8_t op = rd_u8(&r);
        switch (op) {
        case 0x50: { /* NAME */
            Fenced f;
            void  *nul;
            if (deleted) break;
            if (fenced_new(&f, DNS_MAX_HOSTNAME_LEN + 1, 0x5A) != 0) return true;
            t->name(it, (char *) f.data);
            if (!fenced_ok(&f)) { log_u8(l, 0xEE); log_u8(l, 1); ctx->canary_bad = 1; }
            nul = memchr(f.data, 0, DNS_MAX_HOSTNAME_LEN + 1);
            if (nul == NULL) {
                log_u16(l, 0xffff);
            } else {
                log_str(l, f.data, (size_t)((uint8_t *) nul - f.data));
            }
            fenced_free(&f);
            break;
        }
        case 0x51: if (!deleted) log_u16(l, t->rr_type(it)); break;
        case 0x52: if (!deleted) log_u16(l, t->rr_class(it)); break;
        case 0x53: if (!deleted) log_u32(l, t->rr_ttl(it)); break;
        case 0x54: { uint32_t v = rd_u32(&r); if (!deleted) t->set_rr_ttl(it, v); break; }
        case 0x55: { /* RR_IP: only on A / AAAA records, with a buffer of exactly that size */
            uint16_t ty;
            size_t   want, addr_len;
            Fenced   f;
            if (deleted) break;
            ty   = t->rr_type(it);
            want = ty == 1 ? 4 : (ty == 28 ? 16 : 0);
            if (want == 0) break;
            if (fenced_new(&f, want, 0x5A) != 0) return true;
            addr_len = want;
            t->rr_ip(it, f.data, &addr_len);
            if (!fenced_ok(&f)) { log_u8(l, 0xEE); log_u8(l, 2); ctx->canary_bad = 1; }
            log_u8(l, (uint8_t) addr_len);
            log_bytes(l, f.data, addr_len <= want ? addr_len : want);
            fenced_free(&f);
            break;
        }
        case 0x5B: { /* RR_IP with a roomier buffer: the table must still report 4 or 16 and
                        write exactly that many bytes */
            uint8_t  extra = rd_u8(&r);
            uint16_t ty;
            size_t   want, addr_len, i;
            Fenced   f;
            int      touched = 0;
            if (deleted) break;
            ty   = t->rr_type(it);
            want = ty == 1 ? 4 : (ty == 28 ? 16 : 0);
            if (want == 0) break;
            if (fenced_new(&f, want + extra, 0x5A) != 0) return true;
            addr_len = want + extra;
            t->rr_ip(it, f.data, &addr_len);
            if (!fenced_ok(&f)) { log_u8(l, 0xEE); log_u8(l, 2); ctx->canary_bad = 1; }
            log_u8(l, (uint8_t) addr_len);
            log_bytes(l, f.data, want);
            for (i = want; i < want + extra; i++) {
                if (f.data[i] != 0x5A) touched = 1;
            }
            log_u8(l, (uint8_t) touched);
            fenced_free(&f);
            break;
        }
        case 0x5C: { /* SET_RAW_NAME with the current owner name, letter case flipped: the raw
                        name is rebuilt from name() (lower-cased dotted text), upper-cased */
            Fenced  f;
            uint8_t raw[DNS_MAX_HOSTNAME_LEN + 2];
            size_t  raw_len = 0;
            int     rc;
            if (deleted) break;
            if (fenced_new(&f, DNS_MAX_HOSTNAME_LEN + 1, 0x5A) != 0) return true;
            t->name(it, (char *) f.data);
            err = NULL;
            rc  = t->raw_name_from_str(raw, &raw_len, &err, (const char *) f.data,
                                       strnlen((const char *) f.data, DNS_MAX_HOSTNAME_LEN));
            fenced_free(&f);
            if (rc != 0) { log_u8(l, 0xfc); break; }
            { size_t i; for (i = 0; i < raw_len; i++) { if (raw[i] >= 'a' && raw[i] <= 'z') raw[i] = (uint8_t)(raw[i] - 32); } }
            err = NULL;
            rc  = t->set_raw_name(it, &err, raw, raw_len);
            log_u8(l, (uint8_t) rc);
            if (rc != 0) log_err(l, t, err);
            break;
        }
        case 0x56: { /* SET_RR_IP: only with the record's own family */
            size_t         n;
            const uint8_t *a = rd_blob(&r, &n);
            uint16_t       ty;
            if (deleted) break;
            ty = t->rr_type(it);
            if ((ty == 1 && n == 4) || (ty == 28 && n == 16)) {
                t->set_rr_ip(it, a, n);
            }
            break;
        }
        case 0x57: { /* SET_RAW_NAME (also on a deleted record: must report a void record) */
            size_t         n;
            const uint8_t *a = rd_blob(&r, &n);
            int            rc;
            err = NULL;
            rc  = t->set_raw_name(it, &err, a, n);
            log_u8(l, (uint8_t) rc);
            if (rc != 0) log_err(l, t, err);
            break;
        }
        case 0x58: { /* SET_NAME text, zone (an empty zone is NULL or a non-NULL pointer, len 0) */
            size_t         n, zn;
            const uint8_t *a = rd_blob(&r, &n);
            const uint8_t *z = rd_blob(&r, &zn);
            uint8_t        nonnull = rd_u8(&r);
            int            rc;
            err = NULL;
            rc  = t->set_name(it, &err, (const char *) a, n, (zn || nonnull) ? z : NULL, zn);
            log_u8(l, (uint8_t) rc);
            if (rc != 0) log_err(l, t, err);
            break;
        }
        case 0x59: { /* DELETE (allowed again after a deletion) */
            int rc;
            err = NULL;
            rc  = t->delete_rr(it, &err);
            log_u8(l, (uint8_t) rc);
            if (rc != 0) log_err(l, t, err); else deleted = 1;
            break;
        }
        case 0x5A: return true;
        default: r.bad = 1; break;
        }
    }
    return false;
}

int dnssim_driver_ok(void) { return 1; }

/* Executes one top-level operation. Returns 0, or 1 on log overflow, 2 on a malformed script,
 * 3 on allocation failure. Canary damage is recorded in the log (0xEE id). */
int dnssim_run_op(const FnTable *t, ParsedPacket *pp, const uint8_t *script, size_t script_len,
                  uint8_t *logbuf, size_t log_cap, size_t *log_len)
{
    Log         l;
    Rd          r;
    uint8_t     op;
    const CErr *err = NULL;

    l.buf = logbuf; l.cap = log_cap; l.len = 0; l.overflow = 0;
    r.p = script; r.n = script_len; r.i = 0; r.bad = 0;
    op = rd_u8(&r);
    switch (op) {
    case 0x01: log_u32(&l, t->flags(pp)); break;
    case 0x02: t->set_flags(pp, rd_u32(&r)); break;
    case 0x03: log_u8(&l, t->rcode(pp)); break;
    case 0x04: t->set_rcode(pp, rd_u8(&r)); break;
    case 0x05: log_u8(&l, t->opcode(pp)); break;
    case 0x06: t->set_opcode(pp, rd_u8(&r)); break;
    case 0x10: case 0x11: case 0x12: case 0x13: { /* ADD_TO section: NUL-terminated text */
        size_t         n;
        const uint8_t *s = rd_blob(&r, &n);
        char          *z = (char *) malloc(n + 1);
        int            rc;
        if (z == NULL) return 3;
        memcpy(z, s, n);
        z[n] = 0;
        switch (op) {
        case 0x10: rc = t->add_to_question(pp, &err, z); break;
        case 0x11: rc = t->add_to_answer(pp, &err, z); break;
        case 0x12: rc = t->add_to_nameservers(pp, &err, z); break;
        default:   rc = t->add_to_additional(pp, &err, z); break;
        }
        free(z);
        log_u8(&l, (uint8_t) rc);
        if (rc != 0) log_err(&l, t, err);
        break;
    }
    case 0x20: { /* RAW_PACKET with a buffer of exactly `cap` bytes */
        size_t cap = rd_u16(&r);
        size_t len = 0xdeadbeef;
        Fenced f;
        int    rc;
        size_t i;
        int    touched = 0;
        if (fenced_new(&f, cap, 0x5A) != 0) return 3;
        rc = t->raw_packet(pp, f.data, &len, cap);
        log_u8(&l, (uint8_t) rc);
        if (!fenced_ok(&f)) { log_u8(&l, 0xEE); log_u8(&l, 3); }
        if (rc == 0) {
            log_u32(&l, (uint32_t) len);
            log_bytes(&l, f.data, len <= cap ? len : cap);
        } else {
            for (i = 0; i < cap; i++) {
                if (f.data[i] != 0x5A) touched = 1;
            }
            log_u8(&l, (uint8_t) touched);
        }
        fenced_free(&f);
        break;
    }
    case 0x21: { /* QUESTION */
        Fenced   f;
        uint16_t ty = 0xdead;
        int      rc;
        void    *nul;
        if (fenced_new(&f, DNS_MAX_HOSTNAME_LEN + 1, 0x5A) != 0) return 3;
        rc = t->question(pp, (char *) f.data, &ty);
        log_u8(&l, (uint8_t) rc);
        if (!fenced_ok(&f)) { log_u8(&l, 0xEE); log_u8(&l, 4); }
        nul = memchr(f.data, 0, DNS_MAX_HOSTNAME_LEN + 1);
        if (nul == NULL) log_u16(&l, 0xffff); else log_str(&l, f.data, (size_t)((uint8_t *) nul - f.data));
        log_u16(&l, ty);
        fenced_free(&f);
        break;
    }
    case 0x22: { /* RENAME target source suffix */
        size_t         tn, sn;
        const uint8_t *tg = rd_blob(&r, &tn);
        const uint8_t *sr = rd_blob(&r, &sn);
        uint8_t        sfx = rd_u8(&r);
        int            rc  = t->rename_with_raw_names(pp, &err, tg, tn, sr, sn, sfx != 0);
        log_u8(&l, (uint8_t) rc);
        if (rc != 0) log_err(&l, t, err);
        break;
    }
    case 0x23: { /* RAW_NAME_FROM_STR */
        size_t         n;
        const uint8_t *s = rd_blob(&r, &n);
        Fenced         f;
        size_t         raw_len = 0xdeadbeef;
        int            rc;
        if (fenced_new(&f, DNS_MAX_HOSTNAME_LEN + 1, 0x5A) != 0) return 3;
        rc = t->raw_name_from_str(f.data, &raw_len, &err, (const char *) s, n);
        log_u8(&l, (uint8_t) rc);
        if (!fenced_ok(&f)) { log_u8(&l, 0xEE); log_u8(&l, 5); }
        if (rc == 0) {
            log_str(&l, f.data, raw_len <= DNS_MAX_HOSTNAME_LEN + 1 ? raw_len : 0);
        } else {
            log_err(&l, t, err);
        }
        fenced_free(&f);
        break;
    }
    case 0x30: case 0x31: case 0x32: case 0x33: { /* ITER section, n programs */
        CbCtx ctx;
        ctx.t = t; ctx.log = &l; ctx.visits = 0; ctx.canary_bad = 0;
        ctx.edns    = op == 0x33;
        ctx.n_progs = rd_u8(&r);
        ctx.progs     = r.p + r.i;
        ctx.progs_len = r.n - r.i;
        switch (op) {
        case 0x30: t->iter_answer(pp, cb, &ctx); break;
        case 0x31: t->iter_nameservers(pp, cb, &ctx); break;
        case 0x32: t->iter_additional(pp, cb, &ctx); break;
        default:   t->iter_edns(pp, cb, &ctx); break;
        }
        log_u8(&l, 0xC1);
        log_u16(&l, (uint16_t) ctx.visits);
        break;
    }
    case 0x40: log_u64(&l, t->abi_version); break;
    default: return 2;
    }
    *log_len = l.len;
    if (r.bad) return 2;
    return l.overflow ? 1 : 0;
}
