// Compiles the lane-C driver against the *shipped* header /repo/src/bin/c_hook/c_hook.h with the
// system C compiler, plus one signature probe per table entry. A failure to compile is not a
// build failure of the harness: it is recorded and reported by the C15 check.
use std::fs;
use std::path::Path;
use std::process::Command;

const HEADER_DIR: &str = "/repo/src/bin/c_hook";

/// One call per table entry, with arguments of the types the Rust side of the table takes
/// (src/c_abi.rs). Passing a pointer where the header declares an integer (or the reverse), or a
/// pointer to the wrong type, is an error under the flags below.
const PROBES: &[(&str, &str)] = &[
    ("error_description", "const char *d = t->error_description(*err); (void) d;"),
    ("flags", "uint32_t v = t->flags(pp); (void) v;"),
    ("set_flags", "t->set_flags(pp, u32);"),
    ("rcode", "uint8_t v = t->rcode(pp); (void) v;"),
    ("set_rcode", "t->set_rcode(pp, u8);"),
    ("opcode", "uint8_t v = t->opcode(pp); (void) v;"),
    ("set_opcode", "t->set_opcode(pp, u8);"),
    ("iter_answer", "t->iter_answer(pp, cb, ctx);"),
    ("iter_nameservers", "t->iter_nameservers(pp, cb, ctx);"),
    ("iter_additional", "t->iter_additional(pp, cb, ctx);"),
    ("iter_edns", "t->iter_edns(pp, cb, ctx);"),
    ("name", "t->name(it, name);"),
    ("rr_type", "uint16_t v = t->rr_type(it); (void) v;"),
    ("rr_class", "uint16_t v = t->rr_class(it); (void) v;"),
    ("rr_ttl", "uint32_t v = t->rr_ttl(it); (void) v;"),
    ("set_rr_ttl", "t->set_rr_ttl(it, u32);"),
    ("rr_ip", "t->rr_ip(it, bytes, &len);"),
    ("set_rr_ip", "t->set_rr_ip(it, cbytes, len);"),
    ("raw_name_from_str", "int rc = t->raw_name_from_str(bytes, &len, err, cstr, len); (void) rc;"),
    ("set_raw_name", "int rc = t->set_raw_name(it, err, cbytes, len); (void) rc;"),
    ("set_name", "int rc = t->set_name(it, err, cstr, len, cbytes, len); (void) rc;"),
    ("delete_rr", "int rc = t->delete_rr(it, err); (void) rc;"),
    ("add_to_question", "int rc = t->add_to_question(pp, err, cstr); (void) rc;"),
    ("add_to_answer", "int rc = t->add_to_answer(pp, err, cstr); (void) rc;"),
    ("add_to_nameservers", "int rc = t->add_to_nameservers(pp, err, cstr); (void) rc;"),
    ("add_to_additional", "int rc = t->add_to_additional(pp, err, cstr); (void) rc;"),
    ("raw_packet", "int rc = t->raw_packet(pp, bytes, &len, len); (void) rc;"),
    ("question", "int rc = t->question(pp, name, &u16); (void) rc;"),
    (
        "rename_with_raw_names",
        "int rc = t->rename_with_raw_names(pp, err, cbytes, len, cbytes, len, true); (void) rc;",
    ),
    ("abi_version", "uint64_t v = t->abi_version; (void) v;"),
];

fn esc(s: &str) -> String {
    s.replace('\\', "\\\\").replace('"', "\\\"").replace('\n', "\\n")
}

fn main() {
    let out = std::env::var("OUT_DIR").unwrap();
    let header = format!("{}/c_hook.h", HEADER_DIR);
    println!("cargo:rerun-if-changed={}", header);
    println!("cargo:rerun-if-changed=cdriver/driver.c");
    println!("cargo:rerun-if-changed=cdriver/driver_stub.c");
    println!("cargo:rerun-if-changed=build.rs");
    let cc = std::env::var("CC").unwrap_or_else(|_| "cc".to_string());

    // ---- driver
    let obj = format!("{}/driver.o", out);
    let lib = format!("{}/libcdriver.a", out);
    let _ = fs::remove_file(&obj);
    let _ = fs::remove_file(&lib);
    let r = Command::new(&cc)
        .args(["-O1", "-g", "-fPIC", "-std=gnu11", "-Wall", "-Wno-int-conversion", "-Wno-incompatible-pointer-types", "-c"])
        .arg("-I")
        .arg(HEADER_DIR)
        .arg("cdriver/driver.c")
        .arg("-o")
        .arg(&obj)
        .output();
    let mut driver_error = String::new();
    let ok = match r {
        Ok(o) if o.status.success() => true,
        Ok(o) => {
            driver_error = String::from_utf8_lossy(&o.stderr).chars().take(3000).collect();
            false
        }
        Err(e) => {
            driver_error = format!("cannot run {}: {}", cc, e);
            false
        }
    };
    if !ok {
        let r = Command::new(&cc)
            .args(["-O1", "-fPIC", "-c", "cdriver/driver_stub.c", "-o"])
            .arg(&obj)
            .output()
            .expect("cc for the stub driver");
        assert!(r.status.success(), "even the stub driver does not compile");
    }
    let r = Command::new("ar").args(["crs", &lib, &obj]).output().expect("ar");
    assert!(r.status.success(), "ar failed");
    println!("cargo:rustc-link-search=native={}", out);
    println!("cargo:rustc-link-lib=static=cdriver");

    // ---- clock seam (lane K): a preloadable object that skews the wall clock
    println!("cargo:rerun-if-changed=cdriver/clockskew.c");
    let so = format!("{}/libclockskew.so", out);
    let _ = fs::remove_file(&so);
    let r = Command::new(&cc)
        .args(["-O1", "-fPIC", "-shared", "cdriver/clockskew.c", "-o"])
        .arg(&so)
        .arg("-ldl")
        .output();
    let so_ok = matches!(r, Ok(ref o) if o.status.success());
    println!("cargo:rustc-env=DNSSIM_CLOCKSKEW_SO={}", if so_ok { so.as_str() } else { "" });

    // ---- signature probes
    let mut failures: Vec<(String, String)> = Vec::new();
    if !Path::new(&header).exists() {
        failures.push(("c_hook.h".into(), format!("{} does not exist", header)));
    } else {
        for (entry, call) in PROBES {
            let src = format!(
                "#include \"c_hook.h\"\n\
                 static bool cb(void *ctx, void *it) {{ (void) ctx; (void) it; return false; }}\n\
                 void probe(const FnTable *t, ParsedPacket *pp, const CErr **err, void *it, void *ctx,\n\
                            char *name, uint8_t *bytes, const uint8_t *cbytes, const char *cstr,\n\
                            size_t len, uint32_t u32, uint16_t u16, uint8_t u8) {{\n\
                     (void) t; (void) pp; (void) err; (void) it; (void) ctx; (void) name; (void) bytes;\n\
                     (void) cbytes; (void) cstr; (void) len; (void) u32; (void) u16; (void) u8; (void) cb;\n\
                     {}\n\
                 }}\n",
                call
            );
            let path = format!("{}/probe_{}.c", out, entry);
            fs::write(&path, src).unwrap();
            let r = Command::new(&cc)
                .args([
                    "-fsyntax-only",
                    "-std=gnu11",
                    "-Werror=int-conversion",
                    "-Werror=incompatible-pointer-types",
                    "-Werror=implicit-function-declaration",
                ])
                .arg("-I")
                .arg(HEADER_DIR)
                .arg(&path)
                .output();
            match r {
                Ok(o) if o.status.success() => {}
                Ok(o) => {
                    let msg: String = String::from_utf8_lossy(&o.stderr)
                        .lines()
                        .filter(|l| l.contains("error"))
                        .take(2)
                        .collect::<Vec<_>>()
                        .join(" | ");
                    failures.push((entry.to_string(), msg));
                }
                Err(e) => failures.push((entry.to_string(), format!("cannot run {}: {}", cc, e))),
            }
        }
    }
    let mut gen = String::new();
    gen.push_str(&format!("pub const DRIVER_COMPILED: bool = {};\n", ok));
    gen.push_str(&format!("pub const DRIVER_ERROR: &str = \"{}\";\n", esc(&driver_error)));
    gen.push_str(&format!("pub const PROBES_RUN: usize = {};\n", PROBES.len()));
    gen.push_str("pub const PROBE_FAILURES: &[(&str, &str)] = &[\n");
    for (e, m) in &failures {
        gen.push_str(&format!("    (\"{}\", \"{}\"),\n", esc(e), esc(m)));
    }
    gen.push_str("];\n");
    fs::write(format!("{}/cprobe.rs", out), gen).unwrap();
}
