//! Lane M: the thread and table workloads of C15/C16/C17, small enough for Miri.
//! Run under `cargo +nightly miri run -- <workload> <workload-seed>` with
//! `-Zmiri-many-seeds=a..b -Zmiri-preemption-rate=0.1`: Miri's seeded scheduler preempts *inside*
//! calls and reports data races, out-of-bounds and use-after-free. One (Miri seed, workload seed)
//! pair is one repeatable execution. A wrong result is reported by a panic whose message starts
//! with "LANE-M VIOLATION".

use dnssector::c_abi::{CErr, FnTable, SectionIterator};
use dnssector::synth::r#gen as dgen;
use dnssector::*;
use std::ffi::{c_void, CStr, CString};

struct Rng(u64);
impl Rng {
    fn next(&mut self) -> u64 {
        self.0 = self.0.wrapping_add(0x9E37_79B9_7F4A_7C15);
        let mut z = self.0;
        z = (z ^ (z >> 30)).wrapping_mul(0xBF58_476D_1CE4_E5B9);
        z = (z ^ (z >> 27)).wrapping_mul(0x94D0_49BB_1331_11EB);
        z ^ (z >> 31)
    }
    fn below(&mut self, n: usize) -> usize {
        (self.next() % n as u64) as usize
    }
}

/// response: question www.example.com A, three A answers (compressed owner names), one
/// additional A record and an OPT record
fn packet() -> Vec<u8> {
    let mut p: Vec<u8> = vec![0x12, 0x34, 0x81, 0x80, 0, 1, 0, 3, 0, 0, 0, 2];
    p.extend_from_slice(b"\x03www\x07example\x03com\x00\x00\x01\x00\x01");
    for i in 1..=3u8 {
        p.extend_from_slice(&[0xc0, 0x0c, 0, 1, 0, 1, 0, 0, 1, 0x2c, 0, 4, 192, 0, 2, i]);
    }
    p.extend_from_slice(&[0x02, b'n', b's', 0xc0, 0x10, 0, 1, 0, 1, 0, 0, 0, 60, 0, 4, 198, 51, 100, 7]);
    p.extend_from_slice(&[0, 0, 41, 0x10, 0, 0, 0, 0x80, 0, 0, 4, 0, 10, 0, 0]);
    p
}

fn parse(b: &[u8]) -> ParsedPacket {
    DNSSector::new(b.to_vec()).unwrap().parse().unwrap()
}

// ------------------------------------------------------------------------------------------ C16

struct Ctx {
    t: *const FnTable,
    err: *const CErr,
    kind: u8,
    rc: i32,
}

unsafe extern "C" fn cb(ctx: *mut c_void, it: *const SectionIterator) -> bool {
    let ctx = &mut *(ctx as *mut Ctx);
    let t = &*ctx.t;
    let it = &mut *(it as *mut SectionIterator);
    match ctx.kind {
        0 => {
            let r1 = (t.delete)(it, &mut ctx.err);
            let r2 = (t.delete)(it, &mut ctx.err);
            ctx.rc = if r1 == 0 { r2 } else { r1 };
        }
        1 => {
            let nm = [0xc0u8, 0x0c];
            ctx.rc = (t.set_raw_name)(it, &mut ctx.err, nm.as_ptr(), nm.len());
        }
        _ => {}
    }
    true
}

/// (return code, expected text) of failing kind `k` through the table, on the calling thread
unsafe fn fail(t: &FnTable, err: &mut *const CErr, k: u8, bytes: &[u8]) -> (i32, String) {
    let mut pp = parse(bytes);
    match k % 5 {
        0 => {
            let s = CString::new("this is not a record").unwrap();
            let exp = parse(bytes)
                .insert_rr_from_string(Section::Answer, "this is not a record")
                .unwrap_err()
                .to_string();
            ((t.add_to_answer)(&mut pp, err, s.as_ptr()), exp)
        }
        1 => {
            let name = b"a..b";
            let mut raw = [0u8; 256];
            let mut raw_len = 0usize;
            let exp = dgen::raw_name_from_str(name, None).unwrap_err().to_string();
            (
                (t.raw_name_from_str)(&mut raw, &mut raw_len, err, name.as_ptr() as *const _, name.len()),
                exp,
            )
        }
        2 => {
            let exp = {
                let mut p = parse(bytes);
                let mut it = p.into_iter_answer().unwrap();
                it.delete().unwrap();
                it.delete().unwrap_err().to_string()
            };
            let mut ctx = Ctx { t, err: *err, kind: 0, rc: 0 };
            (t.iter_answer)(&mut pp, cb, &mut ctx as *mut _ as *mut c_void);
            *err = ctx.err;
            (ctx.rc, exp)
        }
        3 => {
            let exp = {
                let mut p = parse(bytes);
                let mut it = p.into_iter_answer().unwrap();
                it.set_raw_name(&[0xc0, 0x0c]).unwrap_err().to_string()
            };
            let mut ctx = Ctx { t, err: *err, kind: 1, rc: 0 };
            (t.iter_answer)(&mut pp, cb, &mut ctx as *mut _ as *mut c_void);
            *err = ctx.err;
            (ctx.rc, exp)
        }
        _ => {
            let src = b"\x03www\x07example\x03com\x00";
            let empty: [u8; 0] = [];
            let exp = parse(bytes)
                .rename_with_raw_names(&[], src, false)
                .unwrap_err()
                .to_string();
            (
                (t.rename_with_raw_names)(&mut pp, err, empty.as_ptr(), 0, src.as_ptr(), src.len(), false),
                exp,
            )
        }
    }
}

fn c16(seed: u64) {
    let bytes = packet();
    let k = 2 + (seed % 2) as usize;
    let mut hs = Vec::new();
    for i in 0..k {
        let bytes = bytes.clone();
        hs.push(std::thread::spawn(move || {
            let mut rng = Rng(seed ^ (i as u64 + 1).wrapping_mul(0xA24B_AED4_963E_E407));
            let t = dnssector::fn_table();
            let mut err: *const CErr = std::ptr::null();
            for _ in 0..3 {
                let kind = rng.below(5) as u8;
                let (rc, exp) = unsafe { fail(&t, &mut err, kind, &bytes) };
                assert_eq!(rc, -1, "LANE-M harness: failing call kind {} did not fail", kind);
                std::thread::yield_now();
                // a failing call that declines the description (NULL out-pointer): nothing may be
                // written through it; this thread's next read may show either description
                let mut alt: Option<String> = None;
                if rng.below(3) == 0 {
                    let name = b"a..b";
                    let mut raw = [0u8; 256];
                    let mut raw_len = 0usize;
                    let rc = unsafe {
                        (t.raw_name_from_str)(
                            &mut raw,
                            &mut raw_len,
                            std::ptr::null_mut(),
                            name.as_ptr() as *const _,
                            name.len(),
                        )
                    };
                    assert_eq!(rc, -1, "LANE-M harness: failing call with a NULL out-pointer did not fail");
                    alt = Some(dgen::raw_name_from_str(name, None).unwrap_err().to_string());
                    std::thread::yield_now();
                }
                // a succeeding call must not disturb the description
                if rng.below(2) == 0 {
                    let pp = parse(&bytes);
                    let _ = unsafe { (t.flags)(&pp) };
                }
                std::thread::yield_now();
                let got = unsafe { CStr::from_ptr((t.error_description)(err)) }
                    .to_string_lossy()
                    .into_owned();
                if got != exp && alt.as_ref() != Some(&got) {
                    panic!(
                        "LANE-M VIOLATION property=C16 thread {} read {:?} but its most recent failure was {:?}",
                        i, got, exp
                    );
                }
                std::thread::yield_now();
            }
        }));
    }
    for h in hs {
        h.join().unwrap();
    }
}

// ------------------------------------------------------------------------------------------ C17

fn call(k: usize, bytes: &[u8]) -> String {
    let r = std::panic::catch_unwind(|| match k % 6 {
        0 => format!("{:?}", DNSSector::new(bytes.to_vec()).unwrap().parse().map(|p| (p.offset_answers, p.offset_edns, p.edns_count))),
        1 => format!("{:?}", Compress::uncompress(bytes).map_err(|e| e.to_string())),
        2 => {
            let u = Compress::uncompress(bytes).unwrap();
            format!("{:?}", Compress::compress(&u).map_err(|e| e.to_string()))
        }
        3 => {
            let mut p = parse(bytes);
            format!(
                "{:?}",
                Renamer::rename_with_raw_names(&mut p, b"\x03foo\x04test\x00", b"\x07example\x03com\x00", true)
                    .map_err(|e| e.to_string())
            )
        }
        4 => format!(
            "{:?}",
            dgen::RR::from_string("mail.example.com. 300 IN MX 10 mx1.example.com.")
                .map(|r| r.packet)
                .map_err(|e| e.to_string())
        ),
        _ => format!("{:?}", dgen::raw_name_from_str(b"a.b.example.com", None).map_err(|e| e.to_string())),
    });
    match r {
        Ok(s) => s,
        Err(_) => "panic".into(),
    }
}

fn c17(seed: u64) {
    let bytes = packet();
    // second packet: same names, different case and order, so that suffix tables would collide
    let mut b2 = bytes.clone();
    b2[13] = b'W';
    b2[17] = b'E';
    let inputs = [bytes, b2];
    let base: Vec<Vec<String>> = inputs.iter().map(|b| (0..6).map(|k| call(k, b)).collect()).collect();
    let base = std::sync::Arc::new(base);
    let inputs = std::sync::Arc::new(inputs);
    let mut hs = Vec::new();
    for i in 0..3u64 {
        let base = base.clone();
        let inputs = inputs.clone();
        hs.push(std::thread::spawn(move || {
            let mut rng = Rng(seed ^ (i + 1).wrapping_mul(0x9FB2_1C65_1E98_DF25));
            for _ in 0..4 {
                let k = rng.below(6);
                let w = rng.below(2);
                let got = call(k, &inputs[w]);
                if got != base[w][k] {
                    panic!(
                        "LANE-M VIOLATION property=C17 call {} on input {} returned {} concurrently but {} alone",
                        k, w, got, base[w][k]
                    );
                }
                std::thread::yield_now();
            }
        }));
    }
    for h in hs {
        h.join().unwrap();
    }
    // synthesis: only bytes 0-1 may differ
    let a = dgen::query(b"example.com", Type::A, Class::IN).unwrap();
    let b = dgen::query(b"example.com", Type::A, Class::IN).unwrap();
    if a.packet()[2..] != b.packet()[2..] {
        panic!("LANE-M VIOLATION property=C17 two syntheses of the same query differ outside the transaction id");
    }
}

// ------------------------------------------------------------------------------------------ C15

struct Ctx15 {
    t: *const FnTable,
    seed: u64,
    visits: u32,
}

unsafe extern "C" fn cb15(ctx: *mut c_void, it: *const SectionIterator) -> bool {
    let ctx = &mut *(ctx as *mut Ctx15);
    let t = &*ctx.t;
    let it = &mut *(it as *mut SectionIterator);
    let mut rng = Rng(ctx.seed ^ ctx.visits as u64);
    ctx.visits += 1;
    if ctx.visits > 12 {
        return true;
    }
    let mut name = [0x5au8; 256];
    (t.name)(it, &mut name);
    assert!(name.contains(&0), "LANE-M VIOLATION property=C15 name() left no NUL terminator");
    let ty = (t.rr_type)(it);
    let _ = (t.rr_class)(it);
    let _ = (t.rr_ttl)(it);
    if ty == 1 {
        let mut addr = [0u8; 4];
        let mut len = 4usize;
        (t.rr_ip)(it, addr.as_mut_ptr(), &mut len);
        assert_eq!(len, 4);
        let new = [10u8, 0, 0, ctx.visits as u8];
        (t.set_rr_ip)(it, new.as_ptr(), 4);
    }
    let mut err: *const CErr = std::ptr::null();
    match rng.below(5) {
        0 => {
            (t.set_rr_ttl)(it, 4242);
        }
        1 => {
            let nm = b"\x05other\x07example\x03net\x00";
            let rc = (t.set_raw_name)(it, &mut err, nm.as_ptr(), nm.len());
            assert_eq!(rc, 0);
            (t.name)(it, &mut name);
        }
        2 => {
            let nm = b"x.y";
            let zone = b"\x04zone\x04test\x00";
            let rc = (t.set_name)(it, &mut err, nm.as_ptr() as *const _, nm.len(), zone.as_ptr(), zone.len());
            assert_eq!(rc, 0);
        }
        3 => {
            let rc = (t.delete)(it, &mut err);
            assert_eq!(rc, 0);
            let rc = (t.delete)(it, &mut err);
            assert_eq!(rc, -1);
            let d = CStr::from_ptr((t.error_description)(err));
            assert!(!d.to_bytes().is_empty());
        }
        _ => {}
    }
    false
}

unsafe extern "C" fn cb15_edns(ctx: *mut c_void, _it: *const EdnsIterator<'_>) -> bool {
    let ctx = &mut *(ctx as *mut Ctx15);
    ctx.visits += 1;
    false
}

fn c15(seed: u64) {
    let t = dnssector::fn_table();
    let mut pp = parse(&packet());
    let mut rng = Rng(seed);
    unsafe {
        let mut err: *const CErr = std::ptr::null();
        for step in 0..6 {
            match rng.below(8) {
                0 => {
                    let mut ctx = Ctx15 { t: &t, seed: seed ^ step, visits: 0 };
                    (t.iter_answer)(&mut pp, cb15, &mut ctx as *mut _ as *mut c_void);
                }
                1 => {
                    let mut ctx = Ctx15 { t: &t, seed: seed ^ step, visits: 0 };
                    (t.iter_additional)(&mut pp, cb15, &mut ctx as *mut _ as *mut c_void);
                }
                2 => {
                    let mut ctx = Ctx15 { t: &t, seed, visits: 0 };
                    (t.iter_edns)(&mut pp, cb15_edns, &mut ctx as *mut _ as *mut c_void);
                }
                3 => {
                    let s = CString::new("added.example.com. 60 IN AAAA 2001:db8::1").unwrap();
                    let rc = (t.add_to_answer)(&mut pp, &mut err, s.as_ptr());
                    assert_eq!(rc, 0);
                }
                4 => {
                    let mut buf = Box::new([0x5au8; 8192]);
                    let mut len = 0usize;
                    let cap = [0usize, 20, 8192][rng.below(3)];
                    let rc = (t.raw_packet)(&pp, &mut buf, &mut len, cap);
                    let fits = pp.packet().len() <= cap;
                    assert_eq!(rc == 0, fits, "LANE-M VIOLATION property=C15 raw_packet ignored the stated capacity");
                    if !fits {
                        assert!(buf.iter().all(|&b| b == 0x5a), "LANE-M VIOLATION property=C15 raw_packet wrote although it reported failure");
                    }
                }
                5 => {
                    let mut name = [0x5au8; 256];
                    let mut ty = 0u16;
                    let _ = (t.question)(&mut pp, &mut name, &mut ty);
                    assert!(name.contains(&0), "LANE-M VIOLATION property=C15 question() left no NUL terminator");
                }
                6 => {
                    let tgt = b"\x03new\x04test\x00";
                    let src = b"\x07example\x03com\x00";
                    let _ = (t.rename_with_raw_names)(&mut pp, &mut err, tgt.as_ptr(), tgt.len(), src.as_ptr(), src.len(), true);
                }
                _ => {
                    let f = (t.flags)(&pp);
                    (t.set_flags)(&mut pp, f ^ 0x10);
                    (t.set_rcode)(&mut pp, 3);
                    let _ = (t.opcode)(&pp);
                }
            }
        }
    }
    // the packet must still be one the parser accepts
    let b = pp.packet().to_vec();
    if DNSSector::new(b).unwrap().parse().is_err() {
        panic!("LANE-M VIOLATION property=C15 packet no longer parses after a table script");
    }
}

fn main() {
    let args: Vec<String> = std::env::args().collect();
    let which = args.get(1).map(|s| s.as_str()).unwrap_or("c16");
    let seed: u64 = args.get(2).and_then(|s| s.parse().ok()).unwrap_or(1);
    match which {
        "c15" => c15(seed),
        "c16" => c16(seed),
        "c17" => c17(seed),
        _ => {
            eprintln!("usage: mirilane c15|c16|c17 <seed>");
            std::process::exit(2);
        }
    }
}
