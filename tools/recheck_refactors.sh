#!/bin/bash
# Re-runs every quick check against every kept property-preserving change: all must exit 0.
cd /verif
[ -z "$(git -C /repo status --short)" ] || { echo "/repo not clean"; exit 2; }
for d in refactors/*/; do
  id=$(basename $d)
  git -C /repo apply "/verif/$d/patch.diff" 2>/dev/null || { echo "REFACTOR $id: patch does not apply"; git -C /repo checkout -- .; continue; }
  bad=""
  for P in C08 C09 C10 C11 C15 C16 C17; do
    out=$(DNSSIM_NO_MIRI=${DNSSIM_NO_MIRI:-1} ./check "$P" quick 2>&1); rc=$?
    [ $rc -ne 0 ] && bad="$bad $P(exit=$rc: $(echo "$out" | grep -m1 -E 'signature \[|harness error' | cut -c1-160))"
  done
  git -C /repo checkout -- .
  echo "REFACTOR $id: ${bad:-all 7 checks exit 0}"
done
[ -z "$(git -C /repo status --short)" ] || echo "WARNING /repo not clean"

# these runs were made against a modified /repo: put the committed evidence files back
git -C /verif checkout -- evidence 2>/dev/null
