#!/bin/bash
# usage: scratch_eval.sh <patch.diff> <PROP> [more PROPs...]
# Experiments only (never a registered check): evaluates a change WITHOUT touching /repo, in a
# scratch worktree of /repo plus a scratch copy of /verif whose path dependencies point at it.
# Lets seeds be evaluated while a background run is using /repo.
PATCH="$1"; shift
S=/tmp/scratch_eval
if [ ! -d $S/repo ]; then
  mkdir -p $S
  git -C /repo worktree add --detach $S/repo HEAD >/dev/null 2>&1 || exit 2
fi
git -C $S/repo checkout -q --detach "$(git -C /repo rev-parse HEAD)" 2>/dev/null
git -C $S/repo checkout -- . ; git -C $S/repo clean -fdq -e target
mkdir -p $S/verif
rsync -a --delete --exclude target --exclude replays --exclude evidence --exclude .git /verif/ $S/verif/
sed -i "s|path = \"/repo\"|path = \"$S/repo\"|" $S/verif/sim/Cargo.toml $S/verif/miri/Cargo.toml
sed -i "s|/repo/src/bin/c_hook|$S/repo/src/bin/c_hook|" $S/verif/sim/build.rs
if [ "$PATCH" != "none" ]; then
  git -C $S/repo apply "$PATCH" || { echo "SCRATCH: patch does not apply"; exit 1; }
fi
cd $S/verif
for P in "$@"; do
  out=$(DNSSIM_NO_MIRI=${DNSSIM_NO_MIRI:-1} ./check "$P" quick 2>&1); rc=$?
  echo "SCRATCH $(basename $(dirname $PATCH))/$P: exit=$rc $(echo "$out" | grep -m3 'signature \[' | sed 's/^ *//' | tr '\n' ' ')"
  echo "$out" | grep -E "^violation:|harness error" | head -2
done
