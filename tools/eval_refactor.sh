#!/bin/bash
# usage: eval_refactor.sh <tag> <k>
# A property-PRESERVING change: every quick check must exit 0 with it applied (false-alarm test).
TAG="$1"; K="$2"; SRC="/tmp/refactor_out/$TAG/change$K"; ID="$TAG-$K"; DST="/verif/refactors/$ID"
[ -f "$SRC/patch.diff" ] || { echo "REFACTOR $ID: no patch"; exit 1; }
cd /verif
[ -z "$(git -C /repo status --short)" ] || { echo "/repo not clean"; exit 2; }
git -C /repo apply "$SRC/patch.diff" || { echo "REFACTOR $ID: patch does not apply"; exit 1; }
suite=$(cd /repo && CARGO_NET_OFFLINE=true cargo test --offline 2>&1 | grep -E "^test result" | awk '{p+=$4; f+=$6} END {print p" passed "f" failed"}')
RES=""
for P in C08 C09 C10 C11 C15 C16 C17; do
  out=$(DNSSIM_NO_MIRI=${DNSSIM_NO_MIRI:-1} ./check "$P" quick 2>&1); rc=$?
  sig=$(echo "$out" | grep -m1 "signature \[" | sed 's/^ *//')
  vio=$(echo "$out" | grep -m1 -E "^violation:|harness error" | cut -c1-300)
  RES="$RES{\"check\":\"$P quick\",\"exit\":$rc,\"first_signature\":$(python3 -c 'import json,sys; print(json.dumps(sys.argv[1]))' "$sig"),\"message\":$(python3 -c 'import json,sys; print(json.dumps(sys.argv[1]))' "$vio")},"
  echo "REFACTOR $ID: $P exit=$rc $sig $vio"
done
git -C /repo checkout -- .
mkdir -p "$DST"; cp "$SRC/patch.diff" "$DST/"; cp "$SRC/notes.md" "$DST/author_notes.md" 2>/dev/null
python3 - "$DST/meta.json" "$ID" "$suite" "[${RES%,}]" <<'PY'
import json,sys
p,id_,suite,res=sys.argv[1:5]
r=json.loads(res)
json.dump({"id":id_,"kind":"property-preserving change (false-alarm test)","existing_suite_with_change":suite,
 "check_results":r,"all_checks_exit_0":all(x["exit"]==0 for x in r)},open(p,"w"),indent=1)
PY

# these runs were made against a modified /repo: put the committed evidence files back
git -C /verif checkout -- evidence 2>/dev/null
