#!/usr/bin/env python3
"""Regenerates /verif/MANIFEST.json. Edit CLAIMED below when a check is added or withdrawn."""
import json, os
ROOT = os.path.dirname(os.path.dirname(os.path.abspath(__file__)))
NA = {
 "C01":"totality of parsing is a predicate over single byte strings on a pure function: no schedule, clock, fault, crash point or history for a simulator to own (generating hostile bytes from a seed is fuzzing, a different technique)",
 "C02":"acceptance <=> policy is the equivalence of two recognisers over all byte strings; pure function of one input, nothing to schedule or fault",
 "C03":"read-only accessors are a deterministic function of the accepted bytes; no state survives between calls",
 "C04":"pure getters over one input packet",
 "C05":"decompression is a pure input->output transformation; its only state lives inside one call (isolation of that state is what C17 checks)",
 "C06":"compression is a pure input->output transformation; see C05",
 "C07":"renaming as a stand-alone transformation is a pure function of (packet, names, mode); see C05",
 "C12":"pure bit manipulation over a finite domain; the fitting technique is exhaustive enumeration, which is outside this study's technique family",
 "C13":"record text -> wire is a pure function of a string",
 "C14":"name text <-> wire is a pure function of a string",
 "C18":"a cost bound over single inputs; worst-case input families are an input-generation question with no interleaving, fault or history",
}
PENDING = {
}
CLAIMED = {
 "C08": dict(cat="exploration", sec="5.1", engine="lane-N",
   technique="seeded operation-history simulation against a reference model (deterministic simulation, history search)",
   text="Seeded search over histories of API operations (packet shape x compression layout x OPT placement x operation sequence) on the real library; after every successful step the object's full observable view is compared with a fresh parse of its own bytes (or, in states the parser refuses for policy-only reasons, with the independent recogniser's layout), plus cursor coherence after set_raw_name/uncompress. Four fifths of the runs use a build with checked arithmetic and debug assertions, one fifth the release arithmetic that ships; a worker that stops making progress is killed and reported. Exploration is the right level: the property quantifies over unbounded histories and the failures live in which operation follows which on which packet shape.",
   note="Trusts the harness's reference codec/recogniser (cross-checked against the parser on every generated packet) and the fixed observer battery; max_payload and 'maybe_compressed == true on pointer-free bytes' are deliberately not compared; sampling, not proof."),
 "C09": dict(cat="exploration", sec="5.2", engine="lane-N",
   technique="seeded operation-history simulation against a reference model (deterministic simulation, refinement check per step)",
   text="The same history simulator restricted to the five specified mutators plus context operations: after each mutator returns Ok the same operation is applied to an abstract message model and the packet's bytes must decode (independent decoder) to exactly that model. A panic inside a mutator on legal arguments is a violation.",
   note="The model's semantics of set name / delete / insert / TTL / address are the property's own wording; context operations (header setters, rename, recompute, cursor uncompress) are executed and the model is resynchronised from the bytes afterwards, so their own semantics (C05/C07/C12) are not judged."),
 "C10": dict(cat="fault_enumeration", sec="5.3", engine="lane-N",
   technique="deterministic simulation with injected failing operations (fault kind x position in history x packet shape)",
   text="Fault-injecting configuration of the history simulator: at seeded positions an operation that must or may fail (second question, malformed/over-long names, tombstone reuse, damaged record text, overflowing or malformed rename, insertion at the 8192-byte boundary and into packets far beyond it, growth past 65535, wrong address family, full-record text into the question) replaces the next operation; after every Err the decoded message must equal the one before the call and the full C08 battery must still hold, and the history continues. Size clause: Ok from an insertion implies len <= 8192, and an insertion that would exceed it must not panic or succeed.",
   note="Nothing is required to fail except the size clause; fault kinds are counted when they actually fire; panics of the (unclaimed, C13) text parser on malformed text are evaluated outside the packet and not charged here."),
 "C11": dict(cat="exploration", sec="5.4", engine="lane-N",
   technique="seeded simulation of complete delete-while-iterating walks against a reference model",
   text="Sections of 0-12 (now and then 254-258) uniquely tagged records (all four sections, OPT first/middle/last/absent, compressed or not, root-name questions included) walked to the end with a seeded deletion policy (which records, on which visit, optional double delete); checks bounded termination ((n+1)^2+4 yields), exact removal, void-record on second delete with nothing touched, no yield that is not a current record with the model's content, every survivor yielded at least once, final section = survivors in order with matching count, emptied section absent.",
   note="The cursor is identified with a record through its public offset(), so no particular restart protocol is assumed; OPT is required to be yielded only by walks that use next_including_opt throughout. A deletion through a live cursor may not be refused when the packet is parser-accepted and at most 8192 bytes decompressed; every walk that runs to its end (with or without deletions, whatever earlier walks did) must have yielded every record of its section."),
 "C15": dict(cat="exploration", sec="5.5", engine="lane-C",
   technique="deterministic simulation of hook scripts: C driver compiled against the shipped header vs native API twin (differential), canaries, crash attribution",
   text="Seeded hook scripts (top-level table calls and per-record callback programs, with injected failing calls) are executed by a C interpreter compiled by the system compiler against /repo/src/bin/c_hook/c_hook.h through `const FnTable *`, and in lockstep through the native Rust API on a twin packet; per step the return values, out-parameters, NUL-terminated names, error descriptions, packet bytes and object state must be equal. Caller buffers are exact-size and fenced by canaries; a worker process that dies inside a table call on a precondition-respecting script - or a native call that panics, which through an extern C entry is an abort - is a violation attributed to the run and call in flight; one signature probe per table entry is compiled against the header at build time; a Miri slice runs table scripts through the function pointers with exact-size buffers.",
   note="The native API is the reference, so defects shared by both sides are invisible here (C08-C11 cover them); the native call runs first and a native panic ends the script without involving the table. Canaries catch contiguous overruns only. Probe argument types were derived from src/c_abi.rs at the pinned commit."),
 "C16": dict(cat="exploration", sec="5.6", engine="lane-T",
   technique="deterministic step scheduler over real parked OS threads (seeded uniform and PCT schedules)",
   text="2-4 real OS threads (real thread_local! storage) each run a seeded script of failing table calls (12 kinds), description reads and succeeding calls; a simulator thread alone chooses, from the seed, which thread performs its next call, so every interleaving is exactly repeatable. At every read the string must equal the text of that thread's most recent failure, the expected text being taken from the native error of the same call. Swarm per run: a palette of 2-22 failure kinds (17 distinct texts), optional bursts of 30-320 short-lived failing threads (thread churn), and in a third of the runs failing calls with an unusual error out-parameter (NULL, or a variable still holding the pointer another live thread was given). A dependence on failures of threads of earlier runs of the same process is reported as a replayable run sequence. A Miri slice (seeded preemptive scheduler, data-race detection) runs the same kind of workload with preemption inside calls.",
   note="Interleaving is at call granularity; preemption inside a call and data races are the Miri lane's business (see DESIGN.md 5.6). shuttle/loom are unusable here because they multiplex threads on one OS thread and would share std::thread_local!. After a failing call made with a NULL out-pointer the thread's next read may show its previous description or that call's (the property does not settle it); other threads' descriptions must be untouched either way."),
 "C17": dict(cat="exploration", sec="5.7", engine="lane-T",
   technique="deterministic simulation of call histories, cross-thread schedules and clock skew against isolated baselines",
   text="A pool of seeded inputs sharing a small label alphabet (so suffixes overlap, including >32-suffix packets) is evaluated call by call in fresh threads (baseline), then in seeded orders with repeats on one long-lived thread and interleaved over 2-4 parked threads under a seeded schedule; every outcome (Ok bytes | Err text | panic text) must equal its baseline; gen::query / empty-packet results may differ only in bytes 0-1. Pools include renames that fail part-way, twin renames (same names, other matching mode) scheduled back to back, case-variant record texts and name conversion through the C table. A dependence on earlier runs of the same process is reported as a replayable run sequence; a Miri slice adds preemption inside calls and data-race detection; a clock-skew slice (wall clock shifted 400 days through a preloaded seam) re-executes runs and requires identical event logs.",
   note="Purity means equal outcomes, so deterministic wrong answers or deterministic panics of the transformations (C05-C07, C13: unclaimed) never raise an alarm here."),
}
def check(pid, c):
    return {
     "property_id": pid,
     "quick_cmd": "./check %s quick" % pid,
     "thorough_cmd": "./check %s thorough" % pid,
     "evidence_file": "/verif/evidence/%s.json" % pid,
     "replay_cmd_template": "./check %s --replay {path}" % pid,
     "engine": c["engine"],
     "level_claimed": {"category": c["cat"], "text": c["text"], "design_ref": "DESIGN.md section " + c["sec"]},
     "level_note": c["note"],
     "technique": c["technique"],
    }
m = {
 "version": 1,
 "setup_cmd": "./setup.sh",
 "hooks": {"guard": "dnssector_verif",
           "enable": "none needed: no hooks or instrumentation were added to /repo; checks build /repo's working tree unmodified through a cargo path dependency (the only commits in /repo are 'fix:' repairs, listed in known_findings.json)",
           "baseline_off_cmd": "cd /repo && cargo test --workspace --no-fail-fast --offline",
           "source_commits": [], "add_only": True},
 "engines": [
   {"name": "lane-N", "path": "sim/src/exec.rs", "serves_properties": ["C08","C09","C10","C11"], "kind_free_text": "seeded operation-history simulator: real library vs reference model, oracles after every step, injected failing operations, minimiser, replay"},
   {"name": "lane-C", "path": "sim/src/lane_c.rs, sim/cdriver/driver.c, sim/build.rs", "serves_properties": ["C15"], "kind_free_text": "byte-coded hook scripts interpreted by a C driver compiled against c_hook.h and by a native twin; differential oracle, canaries, child-process crash attribution, per-entry signature probes"},
   {"name": "lane-T", "path": "sim/src/lane_t.rs", "serves_properties": ["C16","C17"], "kind_free_text": "deterministic step scheduler over real parked OS threads (one runnable thread at a time; seeded uniform/PCT schedules), thread churn, run-sequence (process history) replay"},
   {"name": "lane-M", "path": "miri/src/main.rs, sim/src/miri.rs", "serves_properties": ["C15","C16","C17"], "kind_free_text": "small thread/table workloads interpreted by Miri with -Zmiri-many-seeds (seeded preemptive scheduler, data-race / out-of-bounds detection); replay = same Miri seed and workload seed"},
 ],
 "checks": [check(p, c) for p, c in sorted(CLAIMED.items())],
 "not_applicable": [{"property_id": k, "reason": v} for k, v in sorted(NA.items())] +
                   [{"property_id": k, "reason": v} for k, v in sorted(PENDING.items())],
 "notes": "Technique family: deterministic simulation with fault injection. One integer (VERIF_SEED, default 1) decides every packet, history, fault and schedule; every violation is written as an explicit minimised scenario under /verif/replays and re-executed in a fresh process before it is reported. Exit codes: 0 held, 1 violation, 2 harness error. See DESIGN.md.",
}
json.dump(m, open(os.path.join(ROOT, "MANIFEST.json"), "w"), indent=1)
print("claimed:", sorted(CLAIMED), "pending:", sorted(PENDING))
