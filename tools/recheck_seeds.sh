#!/bin/bash
# Re-runs the owning property's quick check against every kept seeded change (applied to /repo's
# working tree and undone straight afterwards) and refreshes check_results in its meta.json.
cd /verif
[ -z "$(git -C /repo status --short)" ] || { echo "/repo not clean"; exit 2; }
for d in seeded/*/; do
  id=$(basename "$d"); prop=${id%%-*}
  [ -n "$1" ] && [ "$1" != "$prop" ] && continue
  git -C /repo apply "/verif/$d/patch.diff" 2>/dev/null || { echo "RECHECK $id: patch does not apply"; git -C /repo checkout -- .; continue; }
  out=$(DNSSIM_NO_MIRI=${DNSSIM_NO_MIRI:-1} ./check "$prop" quick 2>&1); rc=$?
  git -C /repo checkout -- .
  sig=$(echo "$out" | grep -m1 "signature \[" | sed 's/^ *//')
  vio=$(echo "$out" | grep -m1 "^violation:" | cut -c1-400)
  echo "RECHECK $id: exit=$rc $sig"
  python3 - "$d/meta.json" "$prop" "$rc" "$sig" "$vio" <<'PY'
import json,sys
p,prop,rc,sig,vio=sys.argv[1:6]
m=json.load(open(p))
m["check_results"]=[{"check":prop+" quick","exit":int(rc),"first_signature":sig,"violation":vio}]
m["detected"]= int(rc)==1
json.dump(m,open(p,"w"),indent=1)
PY
done
[ -z "$(git -C /repo status --short)" ] || echo "WARNING /repo not clean"

# these runs were made against a modified /repo: put the committed evidence files back
git -C /verif checkout -- evidence 2>/dev/null
