#!/bin/bash
# usage: validate_seed.sh <tag> <k>    e.g. validate_seed.sh C10a 1
# Confirms a seeded change independently in a fresh scratch worktree (outside /repo and /verif):
#   demo passes without the change; the change applies; existing suite passes with it; demo fails with it.
TAG="$1"; K="$2"; SRC="/tmp/seeded_out/$TAG/change$K"
WT="/tmp/wtv/${TAG}_$K"
[ -f "$SRC/patch.diff" ] && [ -f "$SRC/demo_test.rs" ] || { echo "RESULT $TAG/$K missing deliverables"; exit 1; }
rm -rf "$WT"; mkdir -p /tmp/wtv
git -C /repo worktree add --detach "$WT" HEAD >/dev/null 2>&1 || { echo "RESULT $TAG/$K cannot create worktree"; exit 1; }
cd "$WT"
export CARGO_NET_OFFLINE=true RUST_BACKTRACE=0
cp "$SRC/demo_test.rs" tests/zz_demo_seed.rs
base_demo=$(cargo test --offline --test zz_demo_seed 2>&1 | grep -E "^test result" | tail -1)
if ! git apply --check "$SRC/patch.diff" 2>/dev/null; then
  echo "RESULT $TAG/$K patch-does-not-apply"; cd /; git -C /repo worktree remove --force "$WT"; exit 1
fi
git apply "$SRC/patch.diff"
touched=$(git status --short | grep -v zz_demo_seed | awk '{print $2}' | tr '\n' ' ')
mut_demo=$(cargo test --offline --test zz_demo_seed 2>&1 | grep -E "^test result" | tail -1)
rm tests/zz_demo_seed.rs
suite=$(cargo test --offline 2>&1 | grep -E "^test result" | awk '{p+=$4; f+=$6} END {print p" passed "f" failed"}')
echo "RESULT $TAG/$K files=[$touched] demo_without=[$base_demo] demo_with=[$mut_demo] suite_with=[$suite]"
cd /; git -C /repo worktree remove --force "$WT"
