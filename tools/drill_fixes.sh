#!/bin/bash
# Sensitivity drill: revert each "fix:" commit of /repo in the working tree (never committed),
# run the quick check of the property it was recorded under, expect exit 1, restore the tree.
# usage: tools/drill_fixes.sh [runs]
RUNS="${1:-40000}"
cd /verif
python3 - <<'PY' > /tmp/drill_list.txt
import json,re
for f in json.load(open('/verif/known_findings.json'))['fixed']:
    m=re.match(r'fixed: property=(\S+) (\S+) ',f)
    print(m.group(1), m.group(2))
PY
while read prop sha; do
  if ! git -C /repo diff "$sha^" "$sha" | git -C /repo apply -R 2>/dev/null; then
    # later fixes touched the same lines: undo by hand
    if ! python3 /verif/tools/drill_manual.py "$sha"; then
      echo "DRILL $sha $prop: reverse patch does not apply cleanly (skipped)"; git -C /repo checkout -- . ; continue
    fi
  fi
  out=$(DNSSIM_RUNS=$RUNS ./check "$prop" quick 2>&1); rc=$?
  sig=$(echo "$out" | grep -m1 "signature \[" | sed 's/^ *//')
  echo "DRILL $sha $prop: exit=$rc $(echo "$out" | grep -c '^VIOLATION') violation-line(s) $sig"
  git -C /repo checkout -- .
done < /tmp/drill_list.txt
git -C /repo status --short

# these runs were made against a modified /repo: put the committed evidence files back
git -C /verif checkout -- evidence 2>/dev/null
