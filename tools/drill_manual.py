#!/usr/bin/env python3
"""Hand-written reversals of fix commits whose reverse patch no longer applies textually."""
import sys
sha = sys.argv[1]
def sub(path, old, new):
    s = open(path).read()
    if old not in s:
        sys.exit(1)
    open(path, "w").write(s.replace(old, new))
if sha == "81130fd":
    sub("/repo/src/parsed_packet.rs",
        "if self.packet().len() + rr_len > DNS_MAX_UNCOMPRESSED_SIZE {",
        "if DNS_MAX_UNCOMPRESSED_SIZE - self.packet().len() < rr_len {")
elif sha == "f64d576":
    sub("/repo/src/rr_iterator.rs",
        "        Compress::check_compressed_name(name, 0)?; // same character set as the parser\n", "")
elif sha == "949462a":
    sub("/repo/src/rr_iterator.rs",
        "        if self.current_section()? == Section::Question {\n            self.parsed_packet_mut().cached = None;\n        }\n", "")
    sub("/repo/src/rr_iterator.rs",
        "        if section == Section::Question {\n            parsed_packet.cached = None;\n        }\n", "")
elif sha == "948be65":
    # (context lines changed with repair 6b73316) move the count check back behind the splice
    sub("/repo/src/parsed_packet.rs",
        "        let insertion_offset = self.insertion_offset(section)?;\n        self.rrcount_inc(section)?;\n",
        "        let insertion_offset = self.insertion_offset(section)?;\n")
    sub("/repo/src/parsed_packet.rs",
        "            packet[insertion_offset..insertion_offset + rr_len].copy_from_slice(&rr.packet);\n        }\n        match section {",
        "            packet[insertion_offset..insertion_offset + rr_len].copy_from_slice(&rr.packet);\n        }\n        self.rrcount_inc(section)?;\n        match section {")
else:
    sys.exit(1)
