#!/bin/bash
# usage: eval_seed.sh <tag> <k> <prop> [extra props...]
# 1. validate the seeded change independently (scratch worktree); 2. apply to /repo, run the quick
# check(s), undo; 3. store under /verif/seeded/<prop>-<tag>-<k>/ with meta.json.
TAG="$1"; K="$2"; PROP="$3"; shift 3; EXTRA="$@"
SRC="/tmp/seeded_out/$TAG/change$K"
ID="$PROP-$TAG-$K"
DST="/verif/seeded/$ID"
V=$(/verif/tools/validate_seed.sh "$TAG" "$K" 2>&1 | grep '^RESULT')
echo "$V"
echo "$V" | grep -q "demo_without=\[test result: ok" || { echo "EVAL $ID: demo does not pass on the unmodified tree - discarded"; exit 1; }
echo "$V" | grep -q "demo_with=\[test result: FAILED" || { echo "EVAL $ID: demo does not fail with the change - discarded"; exit 1; }
echo "$V" | grep -q "suite_with=\[46 passed 0 failed\]" || { echo "EVAL $ID: existing suite does not pass with the change - discarded"; exit 1; }
cd /verif
if [ -n "$SCRATCH" ]; then
  # evaluate in a scratch worktree + scratch copy of /verif (leaves /repo alone)
  S=/tmp/scratch_eval
  /verif/tools/scratch_eval.sh none >/dev/null 2>&1
  git -C $S/repo apply "$SRC/patch.diff" || { echo "EVAL $ID: patch does not apply"; exit 1; }
  CHECKDIR=$S/verif
else
  [ -z "$(git -C /repo status --short)" ] || { echo "/repo not clean"; exit 2; }
  git -C /repo apply "$SRC/patch.diff" || { echo "EVAL $ID: patch does not apply to /repo"; exit 1; }
  CHECKDIR=/verif
fi
RES=""
for P in $PROP $EXTRA; do
  out=$(cd $CHECKDIR && ./check "$P" quick 2>&1); rc=$?
  sig=$(echo "$out" | grep -m1 "signature \[" | sed 's/^ *//')
  vio=$(echo "$out" | grep -m1 "^violation:" | cut -c1-300)
  RES="$RES{\"check\":\"$P quick\",\"exit\":$rc,\"first_signature\":$(python3 -c 'import json,sys; print(json.dumps(sys.argv[1]))' "$sig"),\"violation\":$(python3 -c 'import json,sys; print(json.dumps(sys.argv[1]))' "$vio")},"
  echo "EVAL $ID: ./check $P quick -> exit $rc  $sig"
done
if [ -n "$SCRATCH" ]; then git -C /tmp/scratch_eval/repo checkout -- . ; else git -C /repo checkout -- . ; fi
[ -z "$(git -C /repo status --short)" ] || echo "WARNING /repo not clean after undo"
# a run against a modified /repo rewrote the evidence file: put the committed one back
[ -z "$SCRATCH" ] && git -C /verif checkout -- evidence 2>/dev/null
mkdir -p "$DST"
cp "$SRC/patch.diff" "$DST/patch.diff"; cp "$SRC/demo_test.rs" "$DST/demo_test.rs"; cp "$SRC/notes.md" "$DST/seeder_notes.md" 2>/dev/null
python3 - "$ID" "$PROP" "$V" "[${RES%,}]" <<'PY'
import json,sys,re
id_,prop,v,res=sys.argv[1:5]
notes=open('/verif/seeded/%s/seeder_notes.md'%id_).read() if True else ''
meta={"id":id_,"breaks_property":prop,
 "needs_to_manifest":"see seeder_notes.md (written by the independent seeder)",
 "independent_validation":v,
 "what_was_run":["tools/validate_seed.sh (fresh scratch worktree of /repo HEAD: demo without change passes; patch applies; existing 46 tests pass with change; demo with change fails)",
                 "git -C /repo apply patch.diff; ./check <prop> quick; git -C /repo checkout -- ."],
 "check_results":json.loads(res)}
json.dump(meta,open('/verif/seeded/%s/meta.json'%id_,'w'),indent=1)
PY
